"""C09 - packet loss: PLC and FEC."""
from ..runner import Job

W = 16
FAST = ["targets/audio_metrics.cpp"]


def jobs(tier):
    q = tier == "quick"
    return [
        Job("c09_loss", "flt-asan", "enumerate", workers=W, enum_stride=64 if q else 1, maxtime=40 if q else 1500, fastsources=FAST, case_timeout=300, refs=("ref-flt",)),
        Job("c09_loss", "flt-asan", "random", workers=W, cases=45 if q else 500, maxtime=50 if q else 900, fastsources=FAST, case_timeout=300, refs=("ref-flt",)),
        # the fixed-point build of the tree (its MDCT concealment is separate code) against the frozen fixed-point decoder
        Job("c09_loss", "fix-asan", "random", workers=W, cases=32 if q else 400, maxtime=50 if q else 700, fastsources=FAST, case_timeout=300, refs=("ref-fix",), seed_salt=17),
    ]


PROP = dict(
    jobs=jobs,
    level="fault_enumeration",
    rule="case = stream from a tree encoder (generated Fs, channels, forced mode, frame duration 2.5..60 ms, bitrate, FEC/loss%, signal) + a loss schedule: "
         "(enumerated) every one of the 2^12 loss patterns over a 12-packet window after a 300 ms warm-up, crossed with 8 fixed configurations; (random) 1-3 "
         "bursts of 20 ms .. 10 s; (FEC) periodic single losses over 90-140 packets. Call shapes: whole-packet concealment, 2.5-20 ms pieces, FEC from the "
         "next packet, FEC with a two-packet frame_size. Non-trivial = at least one loss followed by at least one reception; distinct = (configuration, pattern).",
    required_labels={"any": {"c09_loss/plc-whole": 50, "c09_loss/plc-in-pieces": 5, "c09_loss/fec-with-lbrr": 20, "c09_loss/reconvergence-checked": 50,
                             "c09_loss/resume-peak-checked": 50, "c09_loss/decay-checked": 5, "c09_loss/fec-aggregate-checked": 3, "c09_loss/burst>=1s": 5, "c09_loss/decay-vs-frozen-checked": 5, "c09_loss/reconvergence-vs-frozen-checked": 50, "c09_loss/fec-vs-frozen-checked": 5, "c09_loss/class:gated-bursts": 20, "c09_loss/fec-level-checked:class0": 50, "c09_loss/fec-level-checked:class1": 15,
                             "c09_loss/fec-level-checked:class2": 5, "c09_loss/fec-low-frame-count-checked": 50, "c09_loss/fec-aggregate-checked-40-60ms": 15, "c09_loss/post-loss-packet-vs-frozen-checked": 500}},
    exhaustive_parts={"thorough": ["all 4096 loss patterns over a 12-packet window x 8 configurations (SILK/hybrid/CELT/auto, 2.5-40 ms, mono/stereo, FEC on/off)"],
                      "quick": ["1/64 stratified slice of the pattern x configuration space"]},
    assumptions=["Level bounds (calib/C09.json) were measured on the unchanged tree, whose decoder equals the frozen snapshot; margins >= 2x.",
                 "The decay clause applies to MDCT-only streams with speech-like (non-stationary) input. The MDCT PLC decays to its background-noise estimate (the signal itself "
                 "for stationary input) and the speech layer adds comfort noise (its level estimate is also trained by the first decoded frame), so no decay is asserted there; "
                 "consequently a change of the SILK PLC attenuation constants alone is not detected by this check (sensitivity log).",
                 "FEC superiority (error energy at least 2 dB below concealment) is asserted on the aggregate over >= 20 single losses with LBRR available at 10/20 ms, never per frame; "
                 "for 40/60 ms packets the waveform error of LBRR frames is inherently close to that of concealment (observed gain -0.003..15 dB, median 7 dB), so only 'not worse than "
                 "concealment by 1.5 dB' is asserted there and the accuracy claim is carried by level clauses instead: per position class (first speech frame of the packet / later frame after a frame "
                 "with LBRR data / later frame after a frame without) the energy of the recovered frames against the same frames decoded without loss >= -24 dB and, for later frames, "
                 "within 20 dB of the first frames of the same stream (observed on the repaired tree >= -14.4 dB); and over all recovered frames with real signal at most 1 + n/40 may be more "
                 "than 15 dB too quiet (repaired tree: none in 970 cases).  Mono streams only (the per-frame LBRR flags are read from the packet header with the RFC tables).",
                 "One-sided clauses relative to the frozen decoder fed the identical call sequence (per-case calibration): concealed peak <= 3x, RMS after >= 1 s of loss <= 2x, "
                 "aggregate FEC error energy <= 2x, and wherever the frozen decoder has re-converged to >= 30 dB in a 200 ms window the tree must be at >= 18 dB. "
                 "A change that makes concealment better than the frozen decoder never trips them."],
)

TEXT = dict(
    technique="fault injection (packet loss schedules: exhaustive 2^12 pattern windows + random bursts) with a loss-free twin decoder as oracle; contract, level-bound, decay, FEC-vs-PLC and re-convergence checks",
    level="Loss schedules are injected between a tree encoder and a tree decoder; all 4096 patterns of a 12-packet window are enumerated for 8 configurations in the "
          "thorough tier, bursts up to 10 s are sampled. Every concealment/FEC call must return the requested duration (non-multiples of 2.5 ms refused), finite "
          "output bounded against the recent/pre-loss level, decay under >= 1 s of loss where the codec promises it, encoder final range on every received packet, "
          "aggregate FEC gain over concealment against the loss-free twin, and re-convergence to the twin. Fault enumeration is complete only for the stated window.",
    note="Trusted: calibrated level constants; loss-free twin decoder of the same tree.",
)
