"""C08 - range coder: the decoder inverts the encoder symbol for symbol, within budget."""
from ..runner import Job

W = 16


def jobs(tier):
    q = tier == "quick"
    return [
        # (E) every (ilog, top-16-bits) class of a legal range value: 1152 blocks of 256 classes, always complete
        Job("c08_rangecoder", "flt-asan", "enumerate", workers=4, enum_stride=1, maxtime=120),
        Job("c08_rangecoder", "flt-asan", "random", workers=W, cases=40000 if q else 200000, maxtime=40 if q else 300),
    ] + ([] if q else [Job("c08_rangecoder", "flt-fuzz", "fuzz", fuzz_jobs=8, fuzz_time=180)])


PROP = dict(
    jobs=jobs,
    rule="case = generated sequence of 1..4000 ec_* operations (ec_encode ft 1..2^16, ec_encode_bin 1..15 bits, ec_enc_bit_logp 1..15, "
         "ec_enc_icdf/icdf16 with generated tables, ec_enc_uint ft 2..2^32-1, ec_enc_bits 1..25, ec_enc_patch_initial_bits on a power-of-two "
         "header, ec_enc_shrink, carry-steering symbols) encoded first into a large buffer to learn its bit usage and then into an exact-size "
         "heap block of 1..1275 bytes drawn relative to that usage, decoded with the mirror calls when the encoder reports no error. "
         "Non-trivial = raw bits and range bytes meet in the last byte, or a carry propagates through >= 1 buffered 0xFF, or ec_tell ends "
         "within 8 bits of 8*storage; distinct = hash of (all operations with parameters, initial size, final size).",
    required_labels={"any": {"c08_rangecoder/no-error": 20000, "c08_rangecoder/overrun-or-error": 5000,
                             "c08_rangecoder/carry-through-ff": 2000, "c08_rangecoder/shared-last-byte": 2000,
                             "c08_rangecoder/near-budget": 10000, "c08_rangecoder/tell==budget": 500,
                             "c08_rangecoder/tell>budget-but-fits": 100,
                             "c08_rangecoder/patch-legal": 2000, "c08_rangecoder/patch-misuse": 1000,
                             "c08_rangecoder/shrink-moves-raw": 5000, "c08_rangecoder/tellfrac-class-block": 1152,
                             "c08_rangecoder/uint": 20000, "c08_rangecoder/icdf16": 20000, "c08_rangecoder/bits": 20000}},
    exhaustive_parts={t: ["ec_tell_frac / ec_tell against the iterative definition of RFC 6716 4.1.6.2 for every class (ilog(rng) in 24..31) x "
                          "(top 16 bits of rng, 32768 values) plus rng = 2^31, each with all-zero and all-one low bits: 262 145 classes, "
                          "complete in both tiers"] for t in ("quick", "thorough")},
    assumptions=["Caller preconditions are respected by construction: fl < fh <= ft, ft within the documented ranges, symbols of non-zero "
                 "probability only, ec_enc_shrink only to sizes in [offs+end_offs, storage], ec_enc_patch_initial_bits only on leading bits that "
                 "were coded with exact power-of-two probabilities (or before enough bits exist, where the API promises the error flag).",
                 "Known finding F08a/F08b: a legal ec_enc_patch_initial_bits issued while the stream so far consists of buffered 0xFF bytes "
                 "(rem==-1, ext>0) is excluded by construction (the patch is not issued); the committed replays demonstrate it.",
                 "The harness transcription of RFC 6716 4.1.6.2 (rfc_tell_frac) is the reference for the fractional-bit formula."],
)

TEXT = dict(
    technique="model-free round-trip property-based testing of the ec_* API: two-pass structured sequence generation with budget-relative buffer "
              "sizes and carry steering, lock-step encoder/decoder comparison, exhaustive enumeration of the ec_tell_frac classes, libFuzzer "
              "on the same choice sequences (thorough)",
    level="Exploration: ~3e5 sequences (quick) / ~4e6 + libFuzzer (thorough) of up to 4000 operations each, every clause of C08 checked after "
          "every operation; the fractional-bit formula is checked exhaustively over all 262 145 range-value classes. No claim beyond the sampled "
          "sequences and the enumerated classes.",
    note="Trusted: ASan red zones around the exact-size buffers and tables (bytes outside the buffer), UBSan, libopus assertions, the harness "
         "transcription of the RFC's ec_tell_frac definition.",
)
