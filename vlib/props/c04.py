"""C04 - encode then decode reproduces the input at the reported delay."""
from ..runner import Job

W = 16
FAST = ["targets/audio_metrics.cpp"]


def jobs(tier):
    q = tier == "quick"
    return [Job("c04_fidelity", "flt-asan", "random", workers=W, cases=40 if q else 400, maxtime=60 if q else 800, refs=("ref-flt",), fastsources=FAST, case_timeout=300),
            # the fixed-point build of the tree against the frozen fixed-point codec (relative clauses only; the class floors are float-build figures)
            Job("c04_fidelity", "fix-asan", "random", workers=W, cases=24 if q else 300, maxtime=60 if q else 600, refs=("ref-fix",), fastsources=FAST, case_timeout=300, seed_salt=13),
            # projection clause of C04 ("projection round-trips every input channel, identity and level kept"): the high-rate round trip of the C10 matrix target
            Job("c10_matrix", "flt-asan", "random", workers=8, cases=12 if q else 300, maxtime=60 if q else 400, refs=("ref-flt",), name="c10_matrix.flt-asan.random.c04")]


PROP = dict(
    jobs=jobs,
    rule="case = (Fs, channels, application, forced mode, frame duration 2.5..120 ms, bitrate per channel above a per-mode floor, complexity, VBR/CVBR/CBR, "
         "entry point int16/int24/float, seeded signal family) coded for 1.5 s by the tree codec and by the frozen codec on the same input; or a surround "
         "(family 1, 3-8 ch) / family 255 multistream codec with a distinct tone per channel. Non-trivial = SNR measured on >= 1 s of non-silent signal "
         "(every case); distinct = class x seed x (Fs, duration, format).",
    required_labels={"any": {"c04_fidelity/delay-checked": 20, "c04_fidelity/delay-checked-exact": 8, "c04_fidelity/gain-checked": 30, "c04_fidelity/band-energy-checked": 20,
                             "c04_fidelity/channel-identity-checked": 3, "c04_fidelity/ms-identity-checked": 5, "c04_fidelity/mode:silk": 3,
                             "c04_fidelity/mode:hybrid": 5, "c10_matrix/roundtrip-order-1": 2, "c04_fidelity/mode:celt": 20}},
    assumptions=["Numeric bounds are relative to the frozen codec (pinned commit, float build) run on the same input: SNR >= min(frozen SNR, 30 dB) - 4 dB (calibration over 3188 channel measurements: worst tree-minus-frozen difference -1.8 dB below 30 dB and -4.3 dB "
                 "at 35-45 dB, where pure tones make the figure hypersensitive), per-band energy within 6 dB (observed <= 0.83 dB, one 3-4 dB outlier on a click train; click trains are exempt from the band clause), gain within 0.03 (observed max 0.006), delay minus reported lookahead within 0.3 sample; absolute class floors come from calib/C04.json.",
                 "The delay clause is evaluated only for aperiodic signals whose correlation peak is unambiguous (>= 0.6, 0.02 above the runner-up)."],
)

TEXT = dict(
    technique="metamorphic / differential property-based testing of encode->decode round trips: delay by cross-correlation vs OPUS_GET_LOOKAHEAD, SNR / band energy / per-channel gain against the frozen codec on the same generated input",
    level="Generated configurations and seeded signals are coded by the tree codec and by the frozen codec; the output must be delayed by the reported lookahead "
          "(exact for MDCT-only streams, 0.1 ms otherwise), and SNR, per-band energy and per-channel gain/sign/identity must match the frozen codec's figures within "
          "stated margins (and calibrated class floors). Exploration over sampled configurations; regressions smaller than the margins are not detected.",
    note="Trusted: frozen codec as quality reference; harness metrics (targets/audio_metrics.hpp).",
)
