"""C19 - soft clipping and decoder gain obey their contracts."""
from ..runner import Job

W = 16
S = "c19_softclip"
G = "c19_gain"


def jobs(tier):
    q = tier == "quick"
    # per core under ASan: soft clip ~1500 cases/s, gain ~80 cases/s (each case: 1-2 encoders, 2-12 packets, 4 decoders)
    return [
        Job(S, "flt-asan", "random", workers=W, cases=8000 if q else 150000, maxtime=150 if q else 1200),
        Job(G, "flt-asan", "random", workers=W, cases=800 if q else 12000, maxtime=240 if q else 2400),
        # fixed-point build: the gain stage is integer arithmetic, y = sat(round(x*G/65536)); exact interval oracle
        Job("c19_gain_fix", "fix-asan", "random", workers=W, cases=400 if q else 6000, maxtime=240 if q else 1800),
    ]


PROP = dict(
    jobs=jobs,
    rule="soft clip: case = channel count 1..8 (or a degenerate argument set), 1-4 consecutive frames of length 1..5760 sharing the memory, "
         "one of 8 signal shapes per channel (in-range noise, sine, isolated peaks, runs above range, sign change at the frame edges, "
         "Gaussian noise, huge values up to FLT_MAX, signed zeros / denormals / exactly +-1) at amplitudes 0.5..1e6; non-trivial = a sample "
         "outside [-1,1] was present or a non-zero memory entered a frame (or degenerate arguments); distinct = hash of (C, seed, frame "
         "lengths, shapes, amplitudes). gain: case = encoder configuration(s) + signal + packet fates (normal / lost / recovered by FEC) + "
         "decoder rate and channels + gain value(s) + arch cap; non-trivial = a non-zero gain applied to a non-silent stream; distinct = hash "
         "of (rates, channels, gains, packet prefixes, fates).",
    required_labels={"any": {
        S + "/clipping-active": 5000, S + "/pass-through-checked": 5000, S + "/memory-carried-into-frame": 3000, S + "/degenerate-args": 500,
        S + "/sign-change-at-frame-edge": 1000, S + "/channels:8": 200, S + "/shape:signed-zeros": 1000, S + "/shape:huge": 1000,
        G + "/float-scale-checked": 500, G + "/int16-saturating": 150, G + "/int24-beyond-32bit": 60, G + "/plc": 500, G + "/fec-decode": 100,
        G + "/gain-changed-mid-stream": 300, G + "/mode-class-transition-with-gain": 20, G + "/gain:< -58 dB": 60, G + "/gain:> +58 dB": 60,
        G + "/arch:plain-C": 200,
        "c19_gain_fix/integer-scale-checked": 3000, "c19_gain_fix/factor-pinned-by-both-signs": 2000, "c19_gain_fix/int16-saturating": 500, "c19_gain_fix/plc": 1000,
        "c19_gain_fix/fec-decode": 500}},
    exhaustive_parts={"thorough": [], "quick": []},
    assumptions=[
        "Soft clip inputs are finite (the statement quantifies over finite input); the memory handed in is always one the function itself "
        "produced (0 at stream start).",
        "Pass-through and channel-independence comparisons are bit-exact (same code path, no arithmetic on an in-range channel with zero memory).",
        "Float gain: the decoder multiplies each sample by one float factor, so out_g == out_0 * G is compared bit-exactly (IEEE single "
        "multiply, including denormal results); G is read off the largest sample (+-4 ulp candidates) and must be within 1e-4 of "
        "10^(g/5120). While all output so far is below 1e-30 the factor cannot be identified and the scaling is checked to 1e-4 relative.",
        "16-bit output: exact (lrintf(32768*x), clamped) only while the stream never exceeded full scale, because the 16-bit API soft-clips "
        "with its own memory; otherwise sign agreement and |v| >= 16384 for |x| >= 1 (soft clip maps [1,2] to >= 0.5).",
        "24-bit saturation is accepted at the largest float below 2^31 (2147483520) as well as at INT32_MAX.",
        "Known finding F5 (positive 32-bit overflow in opus_decode24) and F19 (gain applied twice to the first 5 ms after a CELT <-> "
        "SILK/hybrid transition without redundancy) are excluded by construction: F5 = samples with 2^23*x >= 2^31 are not compared; F19 = "
        "the first 5 ms of the real frame of a packet whose mode class may differ from the decoder's previous mode (over-approximated from the TOC bytes, packet fates and frame sizes) are not compared when the gain is non-zero.",
        "Packet streams are produced by libopus encoders inside the case (up to two spliced); hand-crafted packets are not used.",
        "Fixed-point build (c19_gain_fix): the decoded signal is 16-bit and there is no soft clipper, so the gain-0 decoder's opus_decode output is exactly the "
        "input of the gain stage; the oracle is the exact integer relation y = sat16(round(x*G/65536)) with one real G per gain value (interval intersection over "
        "all non-saturated samples must stay non-empty and overlap 10^(g/5120) +- 0.2 %); above +90 dB (g > 23000) celt_exp2() caps the factor and only "
        "saturation/sign are checked."],
)

TEXT = dict(
    technique="property-based testing: generated float buffers against the soft clipper's contract (range, bit-exact pass-through, sign, "
              "metamorphic interleaved-vs-per-channel relation over frame sequences); twin-decoder metamorphic test of OPUS_SET_GAIN over "
              "encoder-generated packet streams with loss, FEC, spliced encoders, gain changes and arch caps; fixed-point build: exact integer interval oracle "
              "y = sat16(round(x*G/65536)) over gain-0 / gain-g decoder twins",
    level="Exploration: seeded random generation (quick: 1.3e5 soft-clip sequences and 1.3e4 decoded streams; thorough: 2.4e6 and 1.9e5); "
          "no exhaustive part.",
    note="Trusted: IEEE single-precision multiply in the harness equals the decoder's (no fast-math in the flt-asan variant), ASan/UBSan, "
         "the encoder as a source of valid packets. Soft-clip continuity across calls is only covered through the interleaved/per-channel "
         "equivalence, not by a smoothness metric.",
)
