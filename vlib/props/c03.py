"""C03 - decoder output conforms to the (frozen) reference decoder."""
from ..runner import Job

W = 16


def jobs(tier):
    q = tier == "quick"
    return [
        Job("c03_conformance", "flt-asan", "random", workers=10 if q else W, cases=22 if q else 400, maxtime=50 if q else 800, refs=("ref-flt", "ref-fix"), case_timeout=300, fastsources=["targets/opus_compare_fn.cpp"]),
        Job("c03_conformance", "fix-asan", "random", workers=6 if q else W, cases=22 if q else 300, maxtime=50 if q else 700, refs=("ref-flt", "ref-fix"), seed_salt=11, case_timeout=300, fastsources=["targets/opus_compare_fn.cpp"]),
    ]


PROP = dict(
    jobs=jobs,
    rule="case = one stream of 0.6..1.8 s produced by the frozen reference encoder (generated Fs/channels/application/bitrate/VBR/complexity/forced mode/"
         "bandwidth/channels/FEC/DTX, frame duration 2.5..120 ms, mid-stream mode/bandwidth/channel/bitrate/duration changes), optionally merged (2-6 packets) "
         "and padded by the frozen repacketizer, decoded at a generated output rate x channel count through opus_decode or opus_decode_float. "
         "Non-trivial = the stream contains a mode/bandwidth/channel transition, a multi-frame packet or padding; distinct = hash of (Fs, channels, decoder "
         "rate/channels, TOC sequence).",
    required_labels={"any": {"c03_conformance/transition:mode": 5, "c03_conformance/transition:bandwidth": 5, "c03_conformance/multi-frame": 5,
                             "c03_conformance/padding": 3, "c03_conformance/metric-evaluated": 30}},
    assumptions=["The normative reference decoder is represented by the frozen pinned commit b5b845fb built with gcc in float and fixed point (no RFC tarball offline).",
                 "The RFC criterion is src/opus_compare.c of the frozen snapshot, ported line by line (targets/opus_compare_fn.hpp)."],
)

TEXT = dict(
    technique="differential property-based testing: generated streams from the frozen reference encoder decoded by the tree decoder and by frozen float/fixed decoders; per-packet final-range equality and the RFC opus_compare metric",
    level="Generated reference-encoder streams with transitions, multi-frame packets and padding are decoded by the tree decoder (float and fixed-point builds) at a "
          "generated rate/channel count and by the frozen reference decoders; every packet must give the same return value and final range (also across arithmetics), "
          "and the stream must pass the RFC 6716 opus_compare metric both in the RFC procedure (reference 48 kHz stereo) and against the frozen decoder at the same "
          "rate and channels. Exploration over sampled streams.",
    note="Trusted: the frozen snapshot as reference (a deviation from RFC 6716 already present in the pinned commit is invisible), the ported metric.",
)
