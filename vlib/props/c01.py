"""C01 - decoding is total and memory-safe."""
from ..runner import Job

W = 16


def jobs(tier):
    q = tier == "quick"
    js = [
        Job("c01_decode", "flt-asan", "random", workers=12 if q else W, cases=7000 if q else 40000, maxtime=40 if q else 600),
        Job("c01_decode", "fix-asan", "random", workers=4 if q else W, cases=6000 if q else 20000, maxtime=40 if q else 400, seed_salt=7),
    ]
    if not q:
        js.append(Job("c01_decode", "flt-fuzz", "fuzz", fuzz_jobs=8, fuzz_time=300))
    return js


PROP = dict(
    jobs=jobs,
    rule="case = decoder object (single / multistream with generated layout / projection with generated matrix; Fs in 8..48 kHz) + history of "
         "1..24 calls (decode in float/int16/int24 of raw, RFC-framed or encoder-derived (optionally mutated) packets; loss; FEC; reset; gain; "
         "phase inversion; complexity; getters) with generated frame_size (0, negative, 2.5 ms-1, exact, +-2, 120 ms, up to 1 s). "
         "Non-trivial = history with a successful decode of a multi-frame, padded or hybrid packet followed by at least one further call; "
         "distinct = hash of (object kind, Fs, channels, per-call TOC/return/fec/format).",
    required_labels={"any": {"c01_decode/kind:single": 50, "c01_decode/kind:multistream": 50, "c01_decode/kind:projection": 20,
                             "c01_decode/ok:plc": 50, "c01_decode/ok:fec": 50, "c01_decode/ok:silk": 50, "c01_decode/ok:celt": 50,
                             "c01_decode/ok:hybrid": 20, "c01_decode/ok:multiframe": 20, "c01_decode/err:-4": 50, "c01_decode/err:-2": 20,
                             "c01_decode/err:-1": 20, "c01_decode/src:encoder": 50, "c01_decode/mode-transition": 10}},
    assumptions=["A NULL data pointer with len > 0 is passed only to the single-stream decoders (documented loss signal); for multistream/projection "
                 "loss is signalled with len == 0 (the documented form).",
                 "frame_size is capped at one second (the 16/24-bit wrappers keep frame_size x channels samples on the stack), as the property states.",
                 "When a call has two or more independent faults any documented error code is accepted (order of checks is an implementation detail)."],
)

TEXT = dict(
    technique="stateful property-based testing of decode/PLC/FEC/ctl histories against a return-value model and the RFC framing model, under ASan+UBSan+assertions with exact-size buffers; libFuzzer over the same choice sequences",
    level="Generated call histories on single-stream, multistream and projection decoders (float and fixed-point builds) with raw, framed and mutated "
          "encoder packets; every call is checked against a model of the documented return contract (exact code for single faults, exact duration and "
          "OPUS_GET_LAST_PACKET_DURATION for valid input), float output must be finite and fully written (NaN-poisoned buffers), packets and PCM live in "
          "exact-size heap blocks so any out-of-bounds access is an ASan report. Exploration only: sampled histories, no absence claim.",
    note="Trusted: RFC framing model, sanitizers, libopus assertions (ENABLE_ASSERTIONS), watchdog of 120 s per case for termination.",
)
