"""C05 - encoder honours the buffer limit, exact CBR size and the bitrate target."""
from ..runner import Job

W = 16


def jobs(tier):
    q = tier == "quick"
    return [
        Job("c05_budget", "flt-asan", "random", workers=W, cases=1000 if q else 12000, maxtime=60 if q else 600),
        Job("c05_ms", "flt-asan", "random", workers=W, cases=250 if q else 3000, maxtime=60 if q else 400),
        Job("c05_cvbr", "flt-opt", "random", workers=W, cases=48 if q else 600, maxtime=60 if q else 400, refs=("ref-flt",)),
    ]


PROP = dict(
    jobs=jobs,
    rule="TBD",
    required_labels={"any": {}},
    assumptions=[],
)

TEXT = dict(technique="TBD", level="TBD", note="TBD")
