"""C05 - encoder honours the buffer limit, exact CBR size and the bitrate target."""
from ..runner import Job

W = 16


def jobs(tier):
    q = tier == "quick"
    return [
        # single-stream histories: buffer limit, exact CBR size, BITRATE_MAX fill, AUTO equal-size clause, tiny buffers
        Job("c05_budget", "flt-asan", "random", workers=W, cases=1000 if q else 12000, maxtime=60 if q else 600),
        # the size clauses are arithmetic-independent: the fixed-point encoder must obey them too (other seed stream)
        Job("c05_budget", "fix-asan", "random", workers=W, cases=300 if q else 6000, maxtime=40 if q else 400, seed_salt=23),
        # multistream / surround / ambisonics histories
        Job("c05_ms", "flt-asan", "random", workers=W, cases=250 if q else 3000, maxtime=60 if q else 400),
        # constrained-VBR long-run clause (>= 5 s windows): the oracle is numeric, so the optimised build carries the
        # bulk and the frozen reference encoder runs alongside; thorough adds a sanitizer pass over the same target
        Job("c05_cvbr", "flt-opt", "random", workers=W, cases=48 if q else 600, maxtime=60 if q else 400, refs=("ref-flt",)),
    ] + ([] if q else [Job("c05_cvbr", "flt-asan", "random", workers=W, cases=40, maxtime=400, refs=("ref-flt",), seed_salt=5)])


PROP = dict(
    jobs=jobs,
    rule="cases = histories on one encoder: a generated configuration (cu::gen_cfg), then up to 64 steps of [optional ctl change among "
         "bitrate (500..512000, AUTO, MAX, clamp edges, invalid values), VBR/CVBR/CBR, DTX, complexity, forced mode, bandwidth, FEC, forced "
         "channels, signal hint, reset] + one encode call (duration 2.5..120 ms, max_data_bytes dense at 1..8, CBR size +-2, 1274..1279, up to 4000, "
         "two buffer layouts, int16/float entry point), oracles after every call; c05_ms does the same on multistream/surround/ambisonics encoders; "
         "c05_cvbr measures >= 5 s CVBR windows after a random preamble. Non-trivial = a CBR packet whose size was predicted and differs from "
         "max_data_bytes, or a buffer below 8 bytes (3 bytes per stream + 3), or a VBR<->CBR switch in the history (c05_cvbr: window above the low-budget floor); "
         "distinct = hash of (Fs, channels, application, per step: duration, buffer bucket, rate-control mode, bitrate bucket).",
    required_labels={"any": {
        "c05_budget/cbr-exact": 600, "c05_budget/cbr-exact-multiframe": 300, "c05_budget/cbr-capped-by-max": 400, "c05_budget/cbr-capped-1276": 100,
        "c05_budget/cbr-floor-1": 50, "c05_budget/cbr-max-fill": 100, "c05_budget/cbr-max-multiframe-over-1276": 30, "c05_budget/cbr-auto": 140,
        "c05_budget/tiny-buffer": 800, "c05_budget/too-small-error": 30, "c05_budget/layout:guard": 900, "c05_budget/vbr-cbr-switch": 400,
        "c05_budget/mode:silk": 700, "c05_budget/mode:hybrid": 300, "c05_budget/mode:celt": 1000,
        "c05_ms/cbr-uncapped": 150, "c05_ms/cbr-explicit-close": 100, "c05_ms/cbr-max-fill": 25, "c05_ms/too-small-error": 150, "c05_ms/tiny-buffer": 250,
        "c05_cvbr/class:celt": 30, "c05_cvbr/class:celt-short": 10, "c05_cvbr/class:lp": 9, "c05_cvbr/class:lp-low": 14, "c05_cvbr/above-target": 25,
    }},
    assumptions=[
        "OPUS_SET_BITRATE semantics as documented in opus_defines.h: AUTO/MAX accepted, other values <= 0 rejected, the rest clamped to [500, 300000*channels] (multistream: [500, 300000]*channels).",
        "A DTX packet (exempt from the exact-size clause) is a packet of <= 2 bytes produced while OPUS_SET_DTX(1) is in force.",
        "The 1276-byte cap binds every CBR packet with an explicit bitrate, also multi-frame ones (40..120 ms); with OPUS_BITRATE_MAX a single-frame packet fills min(max_data_bytes,1276) and a multi-frame packet fills max_data_bytes without cap (read from src/opus_encoder.c and confirmed by the check).",
        "Multistream CBR totals are compared with bitrate*duration/8 to within one byte: the multistream encoder truncates where the single-stream encoder rounds.",
        "A negative return is accepted only as OPUS_BUFFER_TOO_SMALL with max_data_bytes <= 2 (multistream: fewer than 3 bytes per stream); max_data_bytes == 0 must be rejected.",
        "CVBR clause: mean rate over a >= 5 s window at constant settings <= requested bitrate + class allowance from calib/C05.json (2x the largest excess seen on the unchanged tree; classes by observable packet modes, per-channel bitrate and frame duration; lp-low = SILK layer below 16 kb/s per channel where the rate control is loose by design), and, when above the target, <= 1.02 x the frozen reference encoder on the same calls. Budgets below 3 bytes per packet (or below 2400 b/s for frames > 20 ms) only assert len <= 2.",
        "The frozen reference is the pinned snapshot b5b845fb (float, gcc); it cannot reveal a rate-control defect the snapshot already had (F18 was found by the absolute bound).",
    ],
)

TEXT = dict(
    technique="stateful property-based testing (generated ctl/encode histories on one encoder) with an exact rational size model, the RFC 6716 framing model, a lock-step tree decoder, ASan exact-size buffers plus software guard bytes, and a calibrated + differential (frozen reference encoder) long-run rate bound",
    level="Exploration. Every encode call of every generated history (single-stream, multistream, surround, ambisonics) is checked for the return range, untouched memory beyond max_data_bytes, "
          "model-valid framing with the right duration, decodability and - with VBR off - the exact size round(bitrate*T/8) clipped to [1,min(max,1276)] (explicit bitrates incl. both clamps), "
          "buffer fill with OPUS_BITRATE_MAX and equal sizes with OPUS_AUTO; >= 5 s constrained-VBR windows are held against calibrated class allowances and the frozen reference encoder. "
          "No claim beyond the sampled histories.",
    note="Trusted: engine/rfc_framing.hpp, the tree decoder for the decodability clause, ASan/UBSan, calib/C05.json (tools/c05_calibrate.py, 16 k windows, seeds 11-14, tree dd442894). "
         "Findings made with this check: F13 (OPUS_INTERNAL_ERROR for multi-frame packets, fixed 71accbd3) and F18 (hybrid VBR at very low bitrates filled the buffer, fixed dd442894; regression case corpus/C05/fixed/F18-hybrid-vbr-bitrate-max.case).",
)
