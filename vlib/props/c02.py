"""C02 - every encoded packet is valid and decodes in lock-step."""
from ..runner import Job

W = 16


def jobs(tier):
    q = tier == "quick"
    return [
        Job("c02_encode", "flt-asan", "random", workers=10 if q else W, cases=900 if q else 8000, maxtime=45 if q else 700, refs=("ref-flt", "ref-fix")),
        Job("c02_encode", "flt-fuzzing", "random", workers=3 if q else W, cases=700 if q else 6000, maxtime=45 if q else 500, refs=("ref-flt", "ref-fix"), seed_salt=3),
        # fixed-point flavour of the encoder (in-range input only; non-finite / absurd floats are quantified over the float encoder)
        Job("c02_encode", "fix-asan", "random", workers=3 if q else W, cases=600 if q else 5000, maxtime=45 if q else 500, refs=("ref-flt", "ref-fix"), seed_salt=5),
    ]


PROP = dict(
    jobs=jobs,
    rule="case = encoder object (single with generated Fs/channels/application/settings; multistream with explicit layout or surround family 0/1/255; "
         "projection order 1-3) + history of 1..16 steps, each = 0..3 generated ctl changes followed by one encode (int16/int24/float entry point, "
         "duration 2.5..120 ms, max_data_bytes 1..4000, seeded signal family, float input occasionally NaN/Inf/1e30/denormal/huge). "
         "Non-trivial = a setting changed between two encodes or a mode/bandwidth/channel transition is visible in the TOCs; "
         "distinct = hash of (kind, Fs, channels, per-step TOC, size class, duration).",
    required_labels={"any": {"c02_encode/kind:single": 50, "c02_encode/kind:multistream": 10, "c02_encode/kind:projection": 5,
                             "c02_encode/transition:mode": 10, "c02_encode/transition:bandwidth": 10, "c02_encode/multi-frame": 10,
                             "c02_encode/small-buffer": 10, "c02_encode/tiny-packet": 5}},
    assumptions=["The 'frozen RFC 6716 reference decoder' is the pinned commit b5b845fb built in float and fixed-point arithmetic (ref/); a deviation the "
                 "pinned commit already had from the RFC cannot be seen.",
                 "Multistream OPUS_BUFFER_TOO_SMALL is accepted only for max_data_bytes < 4*streams+2."],
)

TEXT = dict(
    technique="stateful property-based testing of encoder ctl/encode histories; oracle = RFC framing model + differential final-range lock-step against the tree decoder (two rates) and the frozen reference decoder in float and fixed point; FUZZING build variant included",
    level="Generated histories of setting changes and encode calls on single-stream, multistream and projection encoders; each packet must parse under the "
          "independent RFC framing model with the submitted duration and be decoded, with identical final range and exact sample count, by the tree decoder at the "
          "encoder's rate, the tree decoder at another rate/channel count, and the frozen reference decoder (float and fixed-point builds). Runs under ASan+UBSan+"
          "assertions, and again on the FUZZING build that randomises mode decisions. Exploration: sampled histories.",
    note="Trusted: framing model; the frozen reference is the pinned commit itself (two arithmetics).",
)
