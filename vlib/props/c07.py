"""C07 - repacketizer (stateful model), pad / unpad / multistream pad / unpad."""
from ..runner import Job

W = 16
R = "c07_repacketizer"
P = "c07_pad"


def jobs(tier):
    q = tier == "quick"
    return [
        Job(R, "flt-asan", "random", workers=W, cases=1000 if q else 60000, maxtime=60 if q else 400),
        Job(P, "flt-asan", "random", workers=W, cases=1000 if q else 40000, maxtime=60 if q else 400),
    ] + ([] if q else [Job(R, "flt-fuzz", "fuzz", fuzz_jobs=8, fuzz_time=180),
                       Job(P, "flt-fuzz", "fuzz", fuzz_jobs=8, fuzz_time=120)])


PROP = dict(jobs=jobs, rule="placeholder", required_labels={"any": {}}, exhaustive_parts={}, assumptions=[])
TEXT = dict(technique="placeholder", level="placeholder", note="placeholder")
