"""C07 - repacketizer (stateful model), pad / unpad / multistream pad / unpad."""
from ..runner import Job

W = 16
R = "c07_repacketizer"
P = "c07_pad"


def jobs(tier):
    q = tier == "quick"
    return [
        Job(R, "flt-asan", "random", workers=W, cases=45000 if q else 120000, maxtime=150 if q else 600),
        Job(P, "flt-asan", "random", workers=W, cases=12000 if q else 60000, maxtime=150 if q else 600),
    ] + ([] if q else [Job(R, "flt-fuzz", "fuzz", fuzz_jobs=8, fuzz_time=180),
                       Job(P, "flt-fuzz", "fuzz", fuzz_jobs=8, fuzz_time=90)])


PROP = dict(
    jobs=jobs,
    rule="c07_repacketizer: a case is a pool of 1-6 packets (model-serialised codes 0-3, CBR/VBR, 1-48 frames of 0..1275 bytes with "
         "boundary bias, padding none/zeros/0x01/extension payload/arbitrary bytes; configuration-incompatible and mutated (invalid) "
         "packets; sometimes real encoder output; re-emitted outputs are fed back) and 1-24 operations init / cat / out / "
         "out_range(b,e) incl. illegal ranges, each compared with the model (frames with owning packet and per-frame extension list, "
         "TOC, duration) and followed by 1-3 maxlen probes in exact allocations. Non-trivial = sequence with >= 2 accepted cats "
         "followed by an output over a strict sub-range. c07_pad: a case is one packet (same generator) padded/unpadded in place, or a "
         "1-8 stream multistream packet, or 2-6 encoder packets (optionally merged to multi-frame packets) decoded by twin decoders "
         "original vs padded vs unpad(pad()). Non-trivial = pad that moves the padding-length field across the 1-byte/2-byte boundary. "
         "distinct = hash of the operation/packet structure.",
    required_labels={"any": {
        R + "/cat:accepted": 5000, R + "/cat:rejected-invalid": 500, R + "/cat:rejected-incompatible": 500, R + "/cat:rejected-120ms": 500,
        R + "/cat:with-extensions": 500, R + "/out:strict-sub-range-after-2-cats": 1000, R + "/out:illegal-range": 500,
        R + "/out:code0": 500, R + "/out:code1": 300, R + "/out:code2": 300, R + "/out:code3-cbr": 300, R + "/out:code3-vbr": 300,
        R + "/out:with-extensions": 300, R + "/out:split-with-extensions": 40, R + "/pool:encoder": 100, R + "/pool:re-emitted": 1000,
        P + "/pad:crosses-255": 500, P + "/pad:with-extensions": 100, P + "/pad:from-code0": 100, P + "/pad:from-code1": 100,
        P + "/pad:from-code2": 100, P + "/pad:from-code3": 100, P + "/pad:invalid": 50, P + "/pad:bad-arg": 50,
        P + "/unpad:shrinks": 300, P + "/unpad:invalid": 50, P + "/ms:pad-multi": 300, P + "/ms:unpad-shrinks": 300,
        P + "/twin:decoded": 150, P + "/twin:merged": 40, P + "/twin:ms-decoded": 150, P + "/twin:celt": 100, P + "/twin:silk": 10,
    }},
    exhaustive_parts={},
    assumptions=[
        "The executable model in engine/rfc_framing.hpp (parser and serializer) is a faithful transcription of RFC 6716 section 3 / App. B; "
        "it decides validity, frames and the canonical (smallest) framing that unpad must produce.",
        "Extension areas of submitted and emitted packets are read with opus_packet_extensions_parse (checked by C16).",
        "Caller preconditions respected: packets stay allocated while the repacketizer borrows them; data pointers are never NULL; "
        "output buffers are exact-size heap blocks of maxlen bytes.",
        "Known findings excluded by construction and replayed from corpus/C07/known/: F3 (range cuts a multi-frame packet carrying "
        "extensions), F7 (carried extension payload makes the output exceed 1277 bytes per frame), F20 (padding that is not a "
        "well-formed extension sequence makes out/out_range/pad fail with OPUS_INTERNAL_ERROR).",
        "opus.h's second size promise (frames + submitted bytes) is not part of the property text; it is false for merged CBR packets "
        "with frames >= 252 bytes and is only counted (label out:exceeds-frames-plus-submitted-bytes).",
    ],
)

TEXT = dict(
    technique="stateful model-based property testing of the repacketizer (operation sequences vs a frame/extension model, RFC framing "
              "model as parser oracle), in-place pad/unpad round trips against the canonical framing, twin-decoder metamorphic test on "
              "real encoder output, ASan/UBSan with exact-size buffers, plus libFuzzer on both targets",
    level="Exploration: every cat verdict (valid, configuration-compatible, <= 120 ms), get_nb_frames after every step, unchanged contents "
          "after rejection (full re-emission), every legal out/out_range output (valid packet, exactly the selected frames byte for byte, "
          "configuration bits, carried extensions), BAD_ARG for illegal ranges, the maxlen relation in exact allocations, the 1277*frames "
          "bound for outputs without extensions; pad (exact new length, same frames/extensions, argument errors), unpad (canonical, "
          "idempotent, never longer, unpad(pad)==unpad), the multistream variants per stream, and identical PCM + final range for "
          "original / padded / re-unpadded encoder packets. No claim beyond the sampled sequences.",
    note="Trusted: engine/rfc_framing.hpp, ASan red zones as the out-of-bounds oracle. Work per case is bounded by constants (<= 24 "
         "operations, <= 40 pool packets, <= 6 encoder frames).",
)
