"""C12 - deterministic, memcpy-copyable, reset-equivalent state."""
from ..runner import Job

W = 16


def jobs(tier):
    q = tier == "quick"
    return [Job("c12_state", "flt-asan", "random", workers=W, cases=500 if q else 12000, maxtime=60 if q else 600)]


PROP = dict(jobs=jobs, rule="wip", required_labels={"any": {}}, exhaustive_parts={}, assumptions=[])
TEXT = dict(technique="wip", level="wip", note="wip")
