"""C12 - codec state is deterministic, memcpy-copyable and reset-equivalent."""
from ..runner import Job

W = 16


def jobs(tier):
    q = tier == "quick"
    return [Job("c12_state", "flt-asan", "random", workers=W, cases=350 if q else 6000, maxtime=240 if q else 1800),
            # the fixed-point build has its own encoder state layout (silk/fixed) and arithmetic: same experiments, other seed stream
            Job("c12_state", "fix-asan", "random", workers=W, cases=120 if q else 3000, maxtime=120 if q else 900, seed_salt=21)]


PROP = dict(
    jobs=jobs,
    rule="a case is (experiment in {determinism, clone, reset}, object kind in {encoder, decoder, multistream encoder incl. surround, "
         "multistream decoder, projection encoder, projection decoder}, RTCD cap, configuration, history of encode/decode/loss/FEC/ctl "
         "steps, copy or reset point). Non-trivial = at least 3 coding steps before and 3 after the copy/reset point (6 in total for "
         "determinism) and the packets of the history change mode or bandwidth at least once; distinct = hash of (experiment, kind, "
         "configuration, step sequence with request values, durations and signal families).",
    required_labels={"any": {
        "c12_state/exp:determinism": 300, "c12_state/exp:clone": 300, "c12_state/exp:reset": 300, "c12_state/cloned": 300,
        "c12_state/reset-done": 250, "c12_state/plc-step": 60, "c12_state/fec-step": 15, "c12_state/mode-or-bandwidth-change": 300,
        "c12_state/kind:enc": 100, "c12_state/kind:dec": 100, "c12_state/kind:ms-enc": 100, "c12_state/kind:ms-dec": 100,
        "c12_state/kind:proj-enc": 100, "c12_state/kind:proj-dec": 100,
        "c12_state/arch-cap:0": 50, "c12_state/arch-cap:1": 50, "c12_state/arch-cap:2": 50, "c12_state/arch-cap:3": 50,
        "c12_state/arch-cap:4": 50, "c12_state/arch-cap:255": 100,
    }},
    exhaustive_parts={},
    assumptions=[
        "Twins receive bit-identical input and the same RTCD cap (opus_verif_arch_cap, set before the objects are initialised); equality across different RTCD levels is C15's claim.",
        "Objects live in caller memory of exactly *_get_size() bytes (exact-size heap blocks under ASan), initialised with *_init(); the clone is made with memcpy of exactly that size and the original block is overwritten and freed, so any pointer into the old block or read beyond the reported size is a sanitizer error.",
        "Poison patterns tried: 0x00, 0xFF, 0xA5 and pseudo-random bytes for the state memory, two different stack scribbles before each twin's step, unrelated encoders/decoders created, used and destroyed between the twins' steps. A read of uninitialised state that none of these patterns exposes is not detected (no MSan build in this environment).",
        "RESET twin: the fresh object receives the settings in force through the public ctl interface in a fixed order; the application is fixed at creation; only legal setting values are used (validation is C11).",
        "Known finding F2 (encoder OPUS_RESET_STATE keeps voice_ratio, silk_mode.LBRR_coded, silk_mode.allowBandwidthSwitch and the MDCT prediction flags) is excluded exactly: the state prefix is inspected at the reset point (never by the oracle); a set LBRR flag turns FEC off after the reset, the first frame after a reset is never digital silence, and a set bandwidth-switch permission or non-initial prediction flags skip the reset comparison. C11's finding F15 (forced channels overwritten by multi-frame packets) is avoided before the reset.",
    ],
)

TEXT = dict(
    technique="metamorphic twin testing over generated call histories: determinism twins in differently poisoned caller memory with unrelated activity in between, memcpy clone versus reference twin with the original destroyed, OPUS_RESET_STATE versus a fresh object configured through the public interface; ASan red zones bound the state size",
    level="Exploration: byte-identical packets / bit-identical PCM and final ranges are required at every step after the copy or reset point for encoders, decoders, multistream (plain, surround, ambisonics) and projection objects at every RTCD cap 0..4 and uncapped; sampled histories of up to 24 steps with loss, FEC, mode, bandwidth, channel and rate changes.",
    note="Trusted: the harness feeds both twins identical data (signals regenerated from seeds), ASan/UBSan, the RFC TOC reader used only for labelling. The optional MSan add-on of the design is not built.",
)
