"""C13 - 16-bit, 24-bit and float PCM are interchangeable views of the same codec."""
from ..runner import Job

W = 16


def jobs(tier):
    q = tier == "quick"
    return [
        Job("c13_formats", "flt-asan", "random", workers=W, cases=1000 if q else 25000, maxtime=60 if q else 900),
        # fixed-point build: the three entry points convert to the 16-bit internal format by different code (FLOAT2INT16, >> 8, copy)
        Job("c13_formats", "fix-asan", "random", workers=W, cases=400 if q else 8000, maxtime=60 if q else 600, seed_salt=31),
    ]


PROP = dict(
    jobs=jobs,
    rule="cases = generated (configuration, signal, history) tuples in five families: twin encoders on int16 / 256*int24 / float/32768 "
         "views of one signal with LSB depth <= 16 and setting changes between frames; twin decoders (float, 16, 24 bit) on one packet "
         "stream with loss, FEC, corruption, gain and reset; the same two relations through the multistream API; projection decoders "
         "against the exact integer demixing model.  Non-trivial = a decoded frame with float samples beyond +-1.0 (soft clipper "
         "active), or an encoder LSB depth < 16, or a layout with several streams / any projection case; distinct = hash of "
         "(configuration, signal family and seed, layout or matrix, history).",
    required_labels={"any": {"c13_formats/fam:enc": 200, "c13_formats/fam:dec": 200, "c13_formats/fam:ms-enc": 50,
                             "c13_formats/fam:ms-dec": 50, "c13_formats/fam:proj": 50, "c13_formats/lsb<16": 100,
                             "c13_formats/setting-change": 100, "c13_formats/beyond-unity": 100,
                             "c13_formats/act:plc": 50, "c13_formats/act:fec": 50, "c13_formats/fec-with-lbrr": 5,
                             "c13_formats/enc-silk": 20, "c13_formats/enc-hybrid": 10, "c13_formats/enc-celt": 50,
                             "c13_formats/proj-custom-matrix": 20, "c13_formats/proj-order-1": 10,
                             "c13_formats/proj-sum-beyond-16bit": 5, "c13_formats/proj-sum-beyond-16bit-builtin": 5,
                             "c13_formats/ms-enc-surround": 5, "c13_formats/ms-enc-ambisonics": 5, "c13_formats/multi-stream": 20}},
    exhaustive_parts={},
    assumptions=["Float build only (the property's exactness claims are about the float build; all relations are exact there: scaling by "
                 "powers of two and one shared native path).",
                 "The 16-bit relation uses the library's own opus_pcm_soft_clip as 'the library's soft clipper' (its contract is C19's subject); "
                 "the harness carries one memory per stream channel, cleared at creation and OPUS_RESET_STATE, untouched by PLC/FEC calls.",
                 "Under PLC/FEC the library converts without the clipper; the oracle accepts the plain saturating conversion or the clipped one.",
                 "24-bit relation is skipped for float samples with |x| >= 255 (2^23 x no longer fits 32 bits; that overflow is C19 / F5).",
                 "Projection: per-stream 16/24-bit and float samples are taken from twin multistream decoders with the trivial mapping "
                 "(their equality with stand-alone decoding is C10).  Samples whose exact demixed sum leaves [-32768,32767] are excluded "
                 "from the saturation clause while known finding F6 is open.",
                 "Square projection geometries only (channels == streams + coupled, as for every ambisonics order): the decoder rejects more channels "
                 "and silently ignores matrix columns >= channels when given fewer.",
                 "Encoder final range is compared only when a packet was produced (after an error return opus_encode keeps the previous value while "
                 "opus_encode_float reports 0).  An error from a packet-source encoder ends the history (labelled source-encoder-error)."],
)

TEXT = dict(
    technique="differential property-based testing: twin encoders / decoders on three PCM views of the same generated audio and packet "
              "histories, exact bit-for-bit relations written from the property text, exact integer reference model for the projection demixer",
    level="Every generated history runs the three entry points side by side on separate codec instances and compares packets, final ranges, "
          "sample counts and every output sample with the stated exact relation (float build, and the fixed-point build with in-range input).  Exploration: sampled configurations, signals, "
          "layouts and histories; no exhaustive part.",
    note="Trusted: opus_pcm_soft_clip as the soft clipper (C19), multistream == per-stream decoding (C10), lrintf of the C library, ASan/UBSan.",
)
