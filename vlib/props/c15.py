"""C15 - optimised, run-time dispatched SIMD kernels match the portable C code."""
from ..runner import Job

W = 16
TU = ["targets/c15_kernels_tu.c"]      # exports the static-inline portable kernels of celt/pitch.h and lists symbols / dispatch tables
# every reference to these portable functions (the dispatch-table rows, the harness) goes through the target's wrappers, which
# replay each call a real encoder makes at arch cap 0 on every SIMD version
WRAP_COMMON = ("-Wl,--wrap=silk_VAD_GetSA_Q8_c", "-Wl,--wrap=silk_VQ_WMat_EC_c", "-Wl,--wrap=silk_NSQ_c", "-Wl,--wrap=silk_NSQ_del_dec_c")
WRAP_FIX = WRAP_COMMON + ("-Wl,--wrap=silk_burg_modified_c",)
# observers for the classes of the known deviations C15F1 / C15F2 in the whole-codec target
WRAP_CODEC = ("-Wl,--wrap=silk_NSQ_del_dec_avx2", "-Wl,--wrap=celt_fir_sse4_1", "-Wl,--wrap=abort")

LEVELS = ["c", "sse", "sse2", "sse4_1", "avx2"]


def host_level():
    """Feature ladder of celt/x86/x86cpu.c read from /proc/cpuinfo (the targets read cpuid themselves and put
    `levels_available:...` into every case's labels; this copy only decides which labels can be required)."""
    try:
        flags = set()
        for line in open("/proc/cpuinfo"):
            if line.startswith("flags"):
                flags = set(line.split(":", 1)[1].split())
                break
    except OSError:
        return 0
    lvl = 0
    for need in (("sse",), ("sse2",), ("sse4_1",), ("avx", "fma", "avx2")):
        if all(f in flags for f in need):
            lvl += 1
        else:
            break
    return lvl


H = host_level()
AVAILABLE = "+".join(LEVELS[:H + 1])
SKIPPED = LEVELS[H + 1:]


def jobs(tier):
    q = tier == "quick"
    return [
        # (a) direct differential calls, float and fixed-point builds: complete length x misalignment grid, then random shapes/data
        Job("c15_kernels", "flt-asan", "enumerate", workers=W, enum_stride=4 if q else 1, maxtime=30 if q else 200, csources=TU, link_extra=WRAP_COMMON),
        Job("c15_kernels", "fix-asan", "enumerate", workers=W, enum_stride=4 if q else 1, maxtime=30 if q else 200, csources=TU, link_extra=WRAP_FIX),
        Job("c15_kernels", "flt-asan", "random", workers=W, cases=6000 if q else 120000, maxtime=40 if q else 400, csources=TU, link_extra=WRAP_COMMON),
        Job("c15_kernels", "fix-asan", "random", workers=W, cases=5000 if q else 120000, maxtime=40 if q else 400, csources=TU, link_extra=WRAP_FIX, seed_salt=5),
        # (b) whole codec at every arch cap: identity clauses under ASan/UBSan, then upstream's OPUS_CHECK_ASM self-checks
        Job("c15_codec", "fix-asan", "random", workers=W, cases=280 if q else 4500, maxtime=40 if q else 400, link_extra=WRAP_CODEC, seed_salt=1),
        Job("c15_codec", "flt-asan", "random", workers=W, cases=280 if q else 4500, maxtime=40 if q else 400, link_extra=WRAP_CODEC, seed_salt=2),
        Job("c15_codec", "fix-checkasm", "random", workers=W, cases=450 if q else 7000, maxtime=40 if q else 400, link_extra=WRAP_CODEC, seed_salt=3),
        Job("c15_codec", "flt-checkasm", "random", workers=W, cases=450 if q else 7000, maxtime=40 if q else 400, link_extra=WRAP_CODEC, seed_salt=4),
    ]


# kernel -> SIMD levels that have an own symbol (union of the float and the fixed-point build)
_KERNELS = {
    "celt_inner_prod": ["sse", "sse2", "sse4_1"], "dual_inner_prod": ["sse"], "xcorr_kernel": ["sse", "sse4_1"], "comb_filter_const": ["sse"],
    "op_pvq_search": ["sse2"], "silk_inner_product_FLP": ["avx2"], "celt_pitch_xcorr": ["avx2"],
    "celt_fir": ["sse4_1"], "silk_inner_prod16": ["sse4_1"], "silk_burg_modified": ["sse4_1"],
    "silk_VAD_GetSA_Q8": ["sse4_1"], "silk_VQ_WMat_EC": ["sse4_1"], "silk_NSQ": ["sse4_1"], "silk_NSQ_del_dec": ["sse4_1", "avx2"],
}


def _required():
    req = {}
    for k, lv in _KERNELS.items():
        req["c15_kernels/kernel:%s" % k] = 60
        req["c15_kernels/table:%s" % k] = 40
        for l in lv:
            if LEVELS.index(l) <= H:
                req["c15_kernels/%s@%s" % (k, l)] = 40
    for a in range(1, H + 1):
        req["c15_kernels/celt_pitch_xcorr@arch%d" % a] = 100        # C function forwarding `arch` to the dispatched kernels
    req["c15_kernels/family:grid"] = 1000
    req["c15_kernels/family:capture"] = 200
    req["c15_kernels/shape:vector-tail"] = 1000
    req["c15_kernels/shape:misaligned"] = 1000
    for st in ("states2", "states3-warped", "states4-warped"):
        req["c15_kernels/silk_NSQ_del_dec:%s" % st] = 100
    req["c15_kernels/comb:in-place"] = 200
    req["c15_kernels/pvq:verified-unique-path"] = 100
    req["c15_kernels/pvq:verified-with-near-ties"] = 100
    lab = "levels_available:%s" % AVAILABLE + ("" if not SKIPPED else " unavailable:%s" % "+".join(SKIPPED))
    req["c15_kernels/" + lab] = 1000
    req["c15_codec/" + lab] = 500
    for cap in range(5):
        req["c15_codec/cap:%d-encoded" % cap] = 500
        req["c15_codec/cap:%d-decoded" % cap] = 500
    for m in ("silk", "hybrid", "celt"):
        req["c15_codec/mode:%s" % m] = 100
    req["c15_codec/fixed:concealed-loss"] = 50
    return req


PROP = dict(
    jobs=jobs,
    rule="c15_kernels: case = 1..4 argument shapes of one dispatched kernel (length 0..1024 with every residue mod 16, pointer offsets 0..15 elements into "
         "exact-end heap blocks, pitch ranges, filter orders, (N,K) of the PVQ search, data class incl. full scale / tiny / denormal / INT16 extremes), or a "
         "sequence of VAD frames, or LTP codebook searches, or a Burg analysis, or ('capture') a real SILK/hybrid encoder run at arch cap 0 whose every call of "
         "silk_NSQ_c / silk_NSQ_del_dec_c / silk_VAD_GetSA_Q8_c / silk_VQ_WMat_EC_c / silk_burg_modified_c is replayed on each SIMD version and dispatch-table row; "
         "plus the complete grid length{0..130, 159..1024 selection} x offset{0..15} x second offset{0,1,7,15} per vector kernel. "
         "c15_codec: case = generated encoder configuration + 1..5 steps (0..2 setting changes, frame duration 2.5..120 ms, signal family) encoded at arch caps "
         "0..4 and decoded at caps 0..4 (fixed build: with concealed losses). Non-trivial (kernels) = a SIMD level was compared and the shape has a vector tail, a "
         "misaligned pointer or non-default data, or a capture case that reached a noise-shaping quantiser; (codec) = more than one step or a setting change. "
         "Distinct = hash of (kernel, length, second parameter, offsets, data classes) / (Fs, channels, per-step TOC, size class). "
         "Feature levels on this host: %s%s." % (AVAILABLE, "" if not SKIPPED else "; NOT available and therefore skipped: " + "+".join(SKIPPED)),
    required_labels={"any": _required()},
    exhaustive_parts={"thorough": ["per plain vector kernel (float: celt_inner_prod, dual_inner_prod, xcorr_kernel, celt_pitch_xcorr, comb_filter_const, op_pvq_search, "
                                   "silk_inner_product_FLP; fixed: celt_fir, xcorr_kernel, celt_inner_prod, celt_pitch_xcorr, silk_inner_prod16): every length 0..130 and 16 "
                                   "larger lengths up to 1024 x first-pointer offset 0..15 x second-pointer offset {0,1,7,15} (one data class / second parameter per point)"],
                      "quick": ["1/4 stratified slice of that grid"]},
    assumptions=[
        "Only feature levels this CPU executes are compared (levels_available label; cpuid ladder SSE<SSE2<SSE4.1<AVX2 read independently of the library and "
        "required to equal opus_select_arch()). A level the host lacks is skipped and named in the label.",
        "Float tolerance is the reassociation bound: two summation orders of n rounded terms differ by at most ~n*2^-23*sum|terms|; the check allows 4x that "
        "(plus the underflow floor). For the recursive in-place comb filter the bound is propagated through the recursion. silk_inner_product_FLP uses the same "
        "bound with the double-precision epsilon (float products are exact in double).",
        "op_pvq_search: C and SSE2 legitimately pick different pulses on near ties (rcpps/rsqrtps, different tie-breaking), so every output (C and SIMD) must be a "
        "valid K-pulse vector with X's signs and the returned energy, and must be reachable by an independent double-precision projection+greedy search whose "
        "comparisons may be off by a relative 2^-9 (Intel bound for rcpps/rsqrtps is 1.5*2^-12 each).",
        "Integer kernels are called inside the domain in which the portable C version itself is defined: no 32-bit accumulator overflow in the celt correlations/"
        "FIR (data is halved until sum|x*y| < 2^31), sum x^2 < 2^34 for silk_burg_modified (rshifts is clamped at 7), LTP correlations within +-1.0 Q17, "
        "xcorr_kernel len >= 4 in the fixed build (every call site; the SSE4.1 version loads x[len-4]). Outside it the C code is undefined and UBSan would abort.",
        "The float build's PCM clause (1e-4 of full scale; largest seen 1e-6) is asserted only for streams in which the decoder never conceals: no change of coding "
        "mode and no frame of <= 1 byte; concealment (pitch search + recursive filters in float) is not bounded by a fixed small number. Final ranges are compared always.",
        "Known deviations excluded as observable classes: C15F1 (celt_fir_sse4_1 saturates at -32768, celt_fir_c at -32767) and C15F2 (silk_NSQ_del_dec_avx2 differs from "
        "the C code when the quantiser state has run away and its reconstructed output saturates: 64-bit product in silk_sar_round_smulww - switched to the C "
        "formula only under OPUS_CHECK_ASM - and a wrapping rounding shift; in the OPUS_CHECK_ASM builds the kernel's own self-check abort is intercepted for exactly "
        "that class and the encoder continues with the portable result).",
    ],
)

TEXT = dict(
    technique="differential property-based testing: each SIMD kernel / dispatch-table row vs the portable C kernel on generated shapes, alignments and data "
              "(bit-exact or analytic reassociation bound, model-based oracle for the PVQ search); encoder-captured arguments for the SILK quantisers via linker "
              "interposition; metamorphic whole-codec relation over the arch-cap hook; upstream OPUS_CHECK_ASM assertions under generated whole-codec load",
    level="Every kernel of celt/x86/x86_celt_map.c and silk/x86/x86_silk_map.c is called as _c, as every _sse/_sse2/_sse4_1/_avx2 symbol the CPU runs and through "
          "every table row on identical inputs in exact-end heap blocks under ASan+UBSan; tables are also checked not to hold a symbol of a higher level than the row. "
          "The same generated encoder histories run at arch caps 0..4: fixed-point packets and PCM must be identical, float streams must decode to identical final ranges "
          "(and lock-step with their own encoder), and the OPUS_CHECK_ASM builds must not assert. Exploration: a complete length x alignment grid plus sampled shapes/data.",
    note="Trusted: cpuid, ASan/UBSan, the hook. Cannot exercise levels the host CPU lacks. The NSQ 10/16 fast path of NSQ_sse4_1.c is unreachable (no complexity "
         "selects shaping order 10) and therefore never compared.",
)
