"""C20 - DTX sends bounded runs of tiny packets when inactive and resumes at once."""
from ..runner import Job

W = 16


def jobs(tier):
    q = tier == "quick"
    return [
        # all oracles incl. ASan/UBSan/assertions and guard bytes
        Job("c20_dtx", "flt-asan", "random", workers=W, cases=120 if q else 600, maxtime=60 if q else 500, refs=("ref-flt",)),
        # the DTX clauses are timing/size/energy oracles: the optimised build buys schedule diversity (other seed stream)
        Job("c20_dtx", "flt-opt", "random", workers=W, cases=240 if q else 1500, maxtime=60 if q else 400, seed_salt=7, refs=("ref-flt",)),
        # fixed-point build: its own digital-silence test and speech-layer front end
        Job("c20_dtx", "fix-asan", "random", workers=W, cases=60 if q else 400, maxtime=60 if q else 400, seed_salt=29, refs=("ref-fix",)),
    ]


PROP = dict(
    jobs=jobs,
    rule="cases = one encoder configuration (rate, channels, application, complexity biased to >= 7, DTX on/off, VBR/CVBR/CBR, frame duration 2.5..120 ms, "
         "forced mode, signal hint, bandwidth, FEC, bitrate from the documented low-budget floor up to 256 kb/s or AUTO, ample or small buffer) and a schedule "
         "burst/gap/burst[/gap/burst] with lengths 0..5 s (total <= 12 s) of one loud stationary signal family interrupted by exact digital silence on frame "
         "boundaries; every packet's length and OPUS_GET_IN_DTX are recorded, two tree decoders run in lock-step (DTX packets as given / as losses). "
         "Non-trivial = the 200 ms clause was evaluated on a gap (analysis detector, gap >= 200 ms + 2 frames), or a burst resumed out of a DTX run, or a "
         "DTX run ended in a refresh packet; distinct = hash of (Fs, channels, duration, complexity, DTX, CBR flag, forced mode, bitrate bucket, segment lengths in frames).",
    required_labels={"any": {
        "c20_dtx/gap-200ms-checked": 120, "c20_dtx/dtx-refresh": 110, "c20_dtx/resume-from-dtx": 120, "c20_dtx/resume-checked": 300,
        "c20_dtx/dtx-off": 100, "c20_dtx/detector:analysis": 220, "c20_dtx/detector:silk-or-none": 120, "c20_dtx/gap-silence-checked": 80,
        "c20_dtx/recovery-checked": 55, "c20_dtx/long-frames": 180, "c20_dtx/mode:silk": 100, "c20_dtx/mode:hybrid": 45, "c20_dtx/mode:celt": 300,
        "c20_dtx/bitrate-at-floor": 60, "c20_dtx/small-buffer": 40, "c20_dtx/onset-vs-frozen-checked": 100,
    }},
    assumptions=[
        "A DTX packet is a packet of <= 2 bytes. Activity stops at a frame boundary t0 from which the input is exactly zero; the encoder's silence detector looks at the frame handed to opus_encode (not at its delay buffer), so the rule checked for the 200 ms clause is: some DTX packet starts at t with t - t0 < 200 ms + one frame duration (gap >= 200 ms + 2 frames, DTX on, complexity >= 7, Fs >= 16 kHz, float build). No lower bound is asserted (a burst the detector already judged inactive may legitimately enter DTX earlier).",
        "Run length: consecutive DTX packets last less than 400 ms + one frame duration, in every configuration (generalised and SILK detector).",
        "Budget floor (DESIGN C20): bitrate*T/8 >= 3 bytes, bitrate >= 2400 b/s and buffer >= 300 bytes/s for frames longer than 20 ms, buffer >= 3 bytes; the generator raises the bitrate until these hold and draws a separate class exactly at the floor.",
        "Resume clause is asserted when the first frame of the burst is unmistakably active: frame rms >= 1/4 of the loudest frame so far (inside the encoder's 25 dB pseudo-SNR rule) and >= 0.001.",
        "Known finding C20F1 (excluded by construction, replay replays/C20/c20_dtx.flt-asan-C20F1-silk-overrun-2-byte-packet.case): with VBR and a small buffer (seen up to 80 bytes) the SILK layer overruns and the encoder falls back to a 2-byte packet although DTX is off; small buffers are therefore drawn only with VBR off or when the SILK layer cannot be used.",
        "Observation C20F2 (excluded by construction): SILK-only CBR at >= 150 kb/s can saturate the decoded signal (C04 territory); CBR rates are capped at 80 kb/s per channel whenever the SILK layer can be chosen.",
        "Decoder clauses are asserted for ample buffers and bitrates AUTO or >= 12 kb/s per channel (recovery: <= 64 kb/s per channel); near-silence is measured inside the DTX part of a gap that opened with >= 60 ms of coded silence; bounds in calib/C20.json (tools/c20_calibrate.py, 12 k schedules, seeds 21-24, 2x margin).",
    ],
)

TEXT = dict(
    technique="stateful property-based testing: generated activity/silence schedules and encoder configurations, oracles on the packet-length / OPUS_GET_IN_DTX sequence and on two lock-step decoders, calibrated energy bounds",
    level="Exploration. For every generated schedule the encoder clauses (first DTX packet before 200 ms + one frame when the analysis runs, no DTX run reaching 400 ms + one frame, "
          "OPUS_GET_IN_DTX true on every DTX packet, first active frame after a gap coded normally, no packet <= 2 bytes with DTX off) are decided exactly from the packet sequence; "
          "decoder clauses (durations, near-silence inside the DTX part of a gap, power recovery afterwards) against calibrated bounds. No claim beyond the sampled schedules.",
    note="Trusted: engine/rfc_framing.hpp, ASan/UBSan, calib/C20.json. Float build only (the fixed-point gate is complexity >= 10). "
         "Findings: C20F1 (2-byte fall-back packets with DTX off when the SILK layer overruns a small VBR buffer), observations on starved rates and SILK CBR saturation in replays/C20/.",
)
