"""C20 - DTX behaviour."""
from ..runner import Job

W = 16


def jobs(tier):
    q = tier == "quick"
    return [
        Job("c20_dtx", "flt-asan", "random", workers=W, cases=80 if q else 600, maxtime=60 if q else 500),
        Job("c20_dtx", "flt-opt", "random", workers=W, cases=160 if q else 1500, maxtime=60 if q else 400, seed_salt=7),
    ]


PROP = dict(jobs=jobs, rule="TBD", required_labels={"any": {}}, assumptions=[])
TEXT = dict(technique="TBD", level="TBD", note="TBD")
