"""C20 - DTX behaviour."""
from ..runner import Job

W = 16


def jobs(tier):
    q = tier == "quick"
    return [
        Job("c20_dtx", "flt-asan", "random", workers=W, cases=12 if q else 300, maxtime=40 if q else 500),
    ]


PROP = dict(jobs=jobs, rule="TBD", required_labels={"any": {}}, assumptions=[])
TEXT = dict(technique="TBD", level="TBD", note="TBD")
