"""C06 - packet parser vs RFC 6716 framing model."""
from ..runner import Job

W = 16


def jobs(tier):
    q = tier == "quick"
    return [
        Job("c06_parse", "flt-asan", "enumerate", workers=W, enum_stride=24 if q else 1, maxtime=40 if q else 900),
        Job("c06_parse", "flt-asan", "random", workers=W, cases=60000 if q else 1500000, maxtime=25 if q else 300),
    ] + ([] if q else [Job("c06_parse", "flt-fuzz", "fuzz", fuzz_jobs=8, fuzz_time=240)])


PROP = dict(
    jobs=jobs,
        rule="cases = byte strings (exhaustive header families A/B/C of DESIGN C06 crossed with both framings; structured "
             "serialised specs with mutations; raw bytes; libFuzzer in thorough). Non-trivial = header-family case whose "
             "accept/reject verdict flips within +-3 bytes of total length, or a structured case with a two-byte length, "
             "padding or a mutation; distinct = hash of (first header bytes, length, framing).",
        required_labels={"any": {"c06_parse/std-accept": 100, "c06_parse/sd-accept": 100, "c06_parse/std-reject": 100,
                                 "c06_parse/sd-reject": 100, "c06_parse/padding-chain": 10, "c06_parse/code3-vbr": 10,
                                 "c06_parse/decoded": 10, "c06_parse/lbrr-set": 10, "c06_parse/len>64Ki": 50}},
        exhaustive_parts={"thorough": ["family A: 256 TOC x 4 fills x length 0..1600 x 2 framings",
                                       "family B: 256 TOC x 256 first length bytes x 12 second bytes x 42 total lengths x 2 framings",
                                       "family C: 64 code-3 TOCs x 256 count bytes x 12 padding chains x 25 length pairs x 16 total lengths x 2 framings",
                                       "family D: 256 TOC x 4 second bytes x 70 total lengths around 2552 / 64 Ki / 128 Ki / 133623 x 2 framings"],
                          "quick": ["1/24 stratified slice of families A, B, C"]},
        assumptions=["The executable model in engine/rfc_framing.hpp is a faithful transcription of RFC 6716 section 3 and Appendix B.",
                     "Header helpers without a length argument are only called with len >= 1 (documented precondition)."],
)

TEXT = dict(
        technique="differential property-based testing against an executable RFC 6716 framing model: exhaustive header-family enumeration + structured random generation + libFuzzer",
        level="Every byte string generated is parsed by opus_packet_parse_impl in both framings and compared, verdict and every out-parameter, with an independent "
              "model of RFC 6716 s3/App. B; three header families are enumerated completely in the thorough tier (2.3e8 packets) and 1/24 of them in quick; "
              "helpers are compared per TOC x rate. Exploration: no claim beyond the enumerated families and sampled cases.",
        note="Trusted: the framing model (engine/rfc_framing.hpp), the range decoder used to read the SILK header bits for the LBRR oracle (checked by C08), ASan/UBSan.",
)
