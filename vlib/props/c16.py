"""C16 - packet extensions: generate / parse / count / iterate / repacketizer carriage."""
from ..runner import Job

W = 16
T = "c16_extensions"


def jobs(tier):
    q = tier == "quick"
    return [
        Job(T, "flt-asan", "random", workers=W, cases=20000 if q else 60000, maxtime=150 if q else 600),
    ] + ([] if q else [Job(T, "flt-fuzz", "fuzz", fuzz_jobs=8, fuzz_time=180)])


PROP = dict(
    jobs=jobs,
    rule="cases = (a) generator-first: structured extension lists (free lists in any order, repeat-eligible id patterns over all "
         "frames with head/tail/breaking deviations, bulk lists of up to 9000 entries; payload lengths biased to the 255-multiple "
         "lacing boundaries, up to 70000) -> generate -> parse/parse_ext/count/count_ext/iterator; (b) parser-first: raw bytes, a token "
         "grammar (separators, repeat indicators with consistent per-frame payloads, L=0 long extension, lacing runs) and damaged "
         "generator output; (c) repacketizer: 1-4 packets built three ways (model serializer + generate, out_range_impl with "
         "extensions, opus_packet_pad_impl) merged and re-emitted over arbitrary ranges. Non-trivial = list/parse result with a "
         "repeat (eligible pattern or repeat actually used), a payload >= 255 bytes or extensions on >= 2 frames; for (c) a merge of "
         ">= 2 extension-carrying packets or a range that cuts a packet while extensions are carried. distinct = hash of "
         "(frame count, (frame,id,length) list) resp. of the byte string resp. of the packet/extension structure.",
    required_labels={"any": {
        T + "/family:gen": 2000, T + "/family:parse": 2000, T + "/family:rp": 2000,
        T + "/repeat-eligible": 500, T + "/repeat-used": 500, T + "/payload>=255": 500, T + "/any-order": 500, T + "/gen:bulk": 100,
        T + "/parse-valid": 1000, T + "/parse-invalid": 300, T + "/parse-repeat-seen": 50,
        T + "/rp:merge-with-extensions": 200, T + "/rp:split-with-extensions": 50, T + "/rp:build-out-range-impl": 300,
        T + "/rp:build-pad-impl": 300, T + "/rp:build-model": 300,
    }},
    exhaustive_parts={},
    assumptions=[
        "Caller preconditions respected: payload pointers are never NULL (also for zero-length payloads), nb_frames in 1..48, "
        "ids 3..127, frame < nb_frames, short ids with 0/1 payload bytes, parse capacity arrays are valid allocations.",
        "The framing of repacketizer outputs is judged by the independent RFC 6716 model (engine/rfc_framing.hpp); the extension "
        "area of an output is read back with opus_packet_extensions_parse, which families (a) and (b) check in the same run.",
        "Known finding F3 (range cuts a multi-frame packet whose extensions sit on selected frames / on frames past the end) is "
        "excluded by construction and replayed from corpus/C16/known/F3.case.",
    ],
)

TEXT = dict(
    technique="property-based round-trip and differential testing of the extension coder (generator-first lists, parser-first byte "
              "grammars, repacketizer carriage against a frame/extension model) under ASan/UBSan with exact-size buffers, plus libFuzzer",
    level="Exploration: every generated list is serialised (dry run, exact buffer, every/sampled smaller length refused in an exact "
          "allocation, larger buffer untouched beyond the size, pad variant) and read back through parse, parse_ext, count, count_ext "
          "and the iterator (walk, reset, frame_max, find), which must agree with each other and with the list per frame and in order; "
          "arbitrary bytes must parse in bounds, with frame < nb_frames, consistently across all readers, and parse->generate->parse must "
          "be a fixed point; repacketizer outputs must carry, per output frame, exactly the extensions of its audio frame. No claim "
          "beyond the sampled cases.",
    note="Trusted: engine/rfc_framing.hpp for packet framing, ASan red zones for the 'no access outside the buffer' clauses. "
         "Payload sizes are capped at 160000 bytes per case; lists above 200 entries sample the smaller lengths instead of trying all.",
)
