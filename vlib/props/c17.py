"""C17 - PVQ, Laplace and table-driven symbol codes are exact, prefix-free bijections."""
from ..runner import Job

W = 16
# test translation units that #include celt/cwrs.c, celt/laplace.c, celt/quant_bands.c from the tree under test
CS = ["targets/c17_cwrs_tu.c", "targets/c17_laplace_tu.c", "targets/c17_qbands_tu.c"]
WRAP = ("-Wl,--wrap=ec_dec_icdf",)     # every table the decoder hands to ec_dec_icdf is validated in the sweep family


def jobs(tier):
    q = tier == "quick"
    return [
        # always complete: 15 PVQ table rows, 5 pulse-cache rows, all ICDF tables, 168 Laplace pairs, one stratified unit per (N,K)
        Job("c17_codes", "flt-asan", "enumerate", workers=W, csources=CS, link_extra=WRAP, maxtime=200),
        # the same complete families on the fixed-point build (static_modes_fixed.h carries its own copy of the pulse cache)
        Job("c17_codes", "fix-asan", "enumerate", workers=W, csources=CS, link_extra=WRAP, maxtime=200),
        # every index of every (N,K) with V <= 2^24 (2^22 stratified otherwise), 32768 indices per unit; quick takes every 32nd unit
        Job("c17_codes_full", "flt-asan", "enumerate", workers=W, sources=["targets/c17_codes.cpp"], extra_defs=("-DC17_FULL_ENUM=1",),
            csources=CS, link_extra=WRAP, enum_stride=32 if q else 1, maxtime=60 if q else 500),
        Job("c17_codes", "flt-asan", "random", workers=W, cases=10000 if q else 30000, csources=CS, link_extra=WRAP, maxtime=35 if q else 400),
    ]


_E_COMMON = [
    "CELT_PVQ_U_DATA: all 1272 words (15 rows) against an independent 128-bit recurrence, < 2^32, recurrence inside the table",
    "pulse cache of the static mode: all 5 LM rows x 21 bands (index, cache[0], every bits[j], bits2pulses over the whole bit range)",
    "every static ICDF table object of silk/tables.h (incl. the LTP-gain, LBRR-flag and NLSF-codebook tables behind pointer structs, "
    "the four shell-code tables, silk_sign_iCDF) and of celt/ (trim, spread, tapset, small_energy): all entries",
    "Laplace model: all 168 (fs,decay) pairs of e_prob_model x every value up to and beyond the clamp x all 32768 probability points",
    "all 329 (N,K) reachable from the static mode: V(N,K) against the independent count; every index when V <= 32768, "
    "else 16384 stratified indices plus the enumeration's split points",
]

PROP = dict(
    jobs=jobs,
    rule="cases: enumerated units (one PVQ table row / one pulse-cache row / all ICDF tables / one Laplace (fs,decay) pair / one (N,K) pair / "
         "one block of 32768 PVQ indices) and random cases (1..24 PVQ vectors of random reachable (N,K) through one range-coder stream, "
         "1..200 Laplace symbols through the real coder, 1..120 symbols of random static ICDF tables through the real coder, random-offset "
         "index sweeps, an encoder->decoder sweep that validates every table passed to ec_dec_icdf). Non-trivial = PVQ case with N > 2 and "
         "K >= 2 (beyond the closed-form tail of cwrsi), Laplace case that reaches the minimum-probability tail or the clamp, any table / "
         "cache / Laplace-pair unit, a sweep that made ec_dec_icdf calls; distinct = hash of (unit kind, pair, block) or of the generated "
         "vectors / symbols / configuration.",
    required_labels={"any": {"c17_codes/pvq-table-row": 15, "c17_codes/pulse-cache": 5, "c17_codes/icdf-tables": 1,
                             "c17_codes/laplace-pair": 168, "c17_codes/pvq-pair": 300, "c17_codes/pvq-pair:stratified": 100,
                             "c17_codes_full/pvq-chunk": 100, "c17_codes_full/pvq-chunk:stratified": 20,
                             "c17_codes/random:pvq-stream": 3000, "c17_codes/random:laplace-stream": 3000,
                             "c17_codes/laplace:tail-or-clamped": 1500, "c17_codes/random:icdf-stream": 2000,
                             "c17_codes/sweep:silk": 400, "c17_codes/sweep:celt": 600, "c17_codes/sweep:hybrid": 100,
                             "c17_codes/sweep:icdf-calls": 1000}},
    exhaustive_parts={
        "thorough": _E_COMMON + ["PVQ index <-> vector: every index of the 253 reachable (N,K) with V <= 2^24 (269 867 070 indices) and 2^22 "
                                 "stratified indices of each of the 76 pairs with V > 2^24: sum|cwrsi(i)| == K and icwrs(cwrsi(i)) == i, every 64th "
                                 "through encode_pulses/decode_pulses and a real range coder"],
        "quick": _E_COMMON + ["1/32 stratified slice (seed-dependent offset) of the 18 152 blocks of 32768 PVQ indices of the thorough tier"]},
    assumptions=["(N,K) reachable = band sizes (eBands[b+1]-eBands[b])<<i>>1 of the static 48 kHz mode for i=0..4 (LM=-1..3, i.e. every frame "
                 "size and the deepest split) with N >= 2, crossed with K = get_pulses(j), j <= cache[0]; N=1 bands carry no PVQ index.",
                 "The ICDF table list is written from silk/tables.h and the ec_dec_icdf call sites; the decoder sweep (linker --wrap) checks "
                 "every table actually used, so a table missing from the list would still be validated when the decoder reaches it.",
                 "bits[j]+1 is compared with 8*log2 V computed in long double; the window [0, 1.001] units is calibrated in calib/C17.json.",
                 "Laplace intervals are observed through recording stubs of ec_encode_bin/ec_decode_bin/ec_dec_update in a test translation unit "
                 "that #includes celt/laplace.c; the same functions are also run through the real range coder in the random family.",
                 "cache.caps is not checked (the statement speaks of the bits-to-pulses cache; recomputing caps needs CUSTOM_MODES-only code)."],
)

TEXT = dict(
    technique="exhaustive enumeration of the finite code spaces (PVQ table words, reachable (N,K) and their indices, Laplace intervals at all "
              "32768 points, every static ICDF table, the pulse cache) against independent references (128-bit recurrence, long-double log2), "
              "plus property-based round trips through the real range coder and a --wrap'd decoder sweep",
    level="Bounded-exhaustive for the listed finite families (complete in the thorough tier; in quick every family is complete except the "
          "per-index PVQ sweep, which is a 1/32 stratified slice plus 16384 stratified indices per (N,K)); exploration for the random round trips.",
    note="Trusted: the harness' 128-bit U(N,K) recurrence and long-double log2, the range coder (checked by C08) for the round-trip families, "
         "ASan/UBSan/assertions. Static functions and tables are reached by test TUs that #include the tree's cwrs.c, laplace.c, quant_bands.c.",
)
