"""C18 - SILK side information dequantises to stable, in-range parameters."""
from ..runner import Job

W = 16


def jobs(tier):
    q = tier == "quick"
    return [
        Job("c18_silk_sideinfo", "flt-asan", "enumerate", workers=W, enum_stride=4 if q else 1, maxtime=40 if q else 600),
        Job("c18_silk_sideinfo", "flt-asan", "random", workers=W, cases=20000 if q else 400000, maxtime=40 if q else 500),
    ]


PROP = dict(
    jobs=jobs,
    rule="TBD",
    required_labels={"any": {}},
    exhaustive_parts={"thorough": [], "quick": []},
    assumptions=[],
)

TEXT = dict(technique="TBD", level="TBD", note="TBD")
