"""C18 - SILK side information dequantises to stable, in-range parameters."""
from ..runner import Job

W = 16
T = "c18_silk_sideinfo"


def jobs(tier):
    q = tier == "quick"
    # The enumerated families are small enough (16 364 cases, 1.64e7 library calls, ~30 core-seconds under
    # ASan) to be walked completely in both tiers; maxtime is only a safety cap for a loaded machine.
    return [
        Job(T, "flt-asan", "enumerate", workers=W, enum_stride=1, maxtime=300 if q else 900, refs=("ref-flt",)),
        Job(T, "flt-asan", "random", workers=W, cases=24000 if q else 300000, maxtime=240 if q else 2400, refs=("ref-flt",)),
        # fixed-point build of the tree: its own pitch estimator (silk/fixed) in the pitch round trip, and the shared decoder code compiled as fixed point
        Job(T, "fix-asan", "random", workers=W, cases=6000 if q else 100000, maxtime=120 if q else 1200, refs=("ref-flt",), seed_salt=9),
    ]


PROP = dict(
    jobs=jobs,
    rule="cases = (a) enumerated blocks of NLSF index vectors (stage-1 vector x residual pattern), gain (previous index, conditional) pairs "
         "and pitch (rate, sub-frames, contour) triples, each looping over its inner index range; (b) generated single index vectors, decoder "
         "histories through silk_decode_parameters (packets of 1-3 frames, rate / frame-size switches, concealed frames before a packet, "
         "interpolation factors 0..4), range-decoded random payloads through silk_decode_indices, gain-index chains, pitch indices, "
         "histories through the real silk_decode_frame (1-8 packets of random payload, resets, rate switches, lost packets, LBRR requests) compared sample by "
         "sample with the frozen snapshot's silk_decode_frame on the same calls, and "
         "encoder round trips (silk_gains_quant; silk_process_NLSFs vs silk_decode_parameters; the pitch estimator's lags vs silk_decode_pitch on drifting periodic signals). Non-trivial = a protective mechanism was "
         "exercised (NLSF stabiliser or Q15 clamp active by the RFC reconstruction model, LPC output differs from the double-precision "
         "conversion by more than the tolerance = bandwidth expansion / 16-bit fit, gain index limited or double-stepped, lag clamped) or the "
         "case carries inter-frame history (interpolated LPC, LPC after loss, rate switch, voiced range-decoded frames) or an NLSF round trip; "
         "distinct = hash of the index vector / block parameters (byte string for histories).",
    required_labels={"any": {
        T + "/family:enum-nb-block": 1000, T + "/family:enum-wb-block": 1000, T + "/family:enum-single-coefficient": 64,
        T + "/family:enum-gains": 128, T + "/family:enum-pitch": 106,
        T + "/nlsf-stabiliser-active": 2000, T + "/nlsf-clipped-to-q15-range": 2000, T + "/lpc-bandwidth-expanded-or-fitted": 2000,
        T + "/lpc-compared-with-double-model": 1000, T + "/interpolated-lpc": 400, T + "/lpc-after-loss": 400, T + "/rate-switch": 400,
        T + "/gain-index-limited": 2000, T + "/gain-double-step": 500, T + "/lag-clamped": 500, T + "/bitstream-voiced": 500,
        T + "/bitstream-delta-lag": 50, T + "/family:rt-nlsf": 1000, T + "/rt-nlsf-interpolated": 100, T + "/family:rt-gains": 500,
        T + "/family:gain-chain": 500, T + "/family:frames-history": 1000, T + "/frames-first-decode-after-reset-and-loss": 50, T + "/frames-interpolated": 100,
        T + "/family:rt-pitch": 1000, T + "/rt-pitch-voiced": 500, T + "/rt-pitch-lag-at-limit": 30}},
    exhaustive_parts={
        "thorough": [
            "NLSF NB/MB codebook: all 32 stage-1 vectors x all residual vectors in {-10,0,10}^10 (1 889 568 vectors): decode, NLSF2A, inverse gain",
            "NLSF WB codebook: all 32 stage-1 vectors x all sign patterns of the all-extreme residual {-10,10}^16 (2 097 152 vectors)",
            "both codebooks: all 32 stage-1 vectors x each coefficient at every value -10..10 with the others zero (17 472 vectors)",
            "gains: all 64 previous indices x {independent: 64, delta: 41} first indices x all 41 second delta indices (one-step transitions are "
            "complete, so closure of [0,63] under chains of any length follows by induction); all 64 levels monotone",
            "pitch: {8,12,16} kHz x {2,4} sub-frames x every contour index x lag index -64..600 (bit-stream reachable range is -16..16*fs+21)"],
        "quick": ["identical to thorough (the enumeration costs about 30 core-seconds)"]},
    assumptions=[
        "Index alphabets: stage-1 index 0..31, residuals -10..10, gain index 0..63 / delta 0..40, lag index -16..16*fs+21, contour < table size, "
        "interpolation factor 0..4 (4 for 10 ms frames). The bit-stream family checks that silk_decode_indices cannot deliver anything else.",
        "The independent models transcribe RFC 6716 4.2.7.4-4.2.7.6 (Table 25 spacing, contour tables 33-36, gain recursion, residual "
        "de-quantisation); codebook tables (stage-1 vectors, weights, predictor, cosine table) are read from the tree as inputs.",
        "LPC accuracy is compared with a double-precision conversion only inside a calibrated well-conditioned region (calib/C18.json); "
        "stability, gain bound and the library's own inverse-gain verdict are checked for every vector.",
        "Encoder round trip uses NLSF targets near codebook-reachable points (gap floor 48, noise <= 100): for far-off targets with "
        "near-coincident NLSFs silk_NLSF_del_dec_quant's int32 rate-distortion accumulator overflows, which is outside this property.",
        "silk_decode_parameters runs on a constructed silk_decoder_state (silk_init_decoder + silk_decoder_set_fs), with the per-frame state "
        "updates of silk_decode_frame (lossCnt, first_frame_after_reset, prevSignalType) applied by the harness."],
)

TEXT = dict(
    technique="property-based testing of the SILK de-quantisers at their internal entry points: exhaustive enumeration of the finite index "
              "families + generated decoder histories, against independent models (RFC reconstruction arithmetic, double-precision step-down "
              "stability test and NLSF->LPC conversion, RFC gain recursion and pitch contour tables) and encoder/decoder round trips",
    level="Exhaustive for the listed NLSF residual-extreme families, all one-step gain transitions and all pitch index combinations (both "
          "tiers); exploration (seeded random, 3.8e5 cases quick / 4.8e6 thorough) for the remaining residual grid, interpolated vectors, "
          "multi-frame histories and round trips.",
    note="Trusted: targets/c18_model.hpp (double-precision step-down and polynomial product, RFC table transcriptions), the range decoder "
         "used by the bit-stream family (C08), ASan/UBSan/assertions. LPC stability is judged on the Q12 coefficients exactly as the "
         "synthesis filter uses them.",
)
