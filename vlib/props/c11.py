"""C11 - settings validated, read back, honoured in the bitstream; creation arguments; allocation failure."""
from ..runner import Job

W = 16


def jobs(tier):
    q = tier == "quick"
    return [
        Job("c11_ctl", "flt-asan", "enumerate", workers=W, enum_stride=8 if q else 1, maxtime=180 if q else 1200),
        Job("c11_ctl", "flt-asan", "random", workers=W, cases=2000 if q else 40000, maxtime=180 if q else 1200),
        Job("c11_honour", "flt-asan", "random", workers=W, cases=500 if q else 10000, maxtime=180 if q else 1200),
        # fixed-point build: its speech-layer encoder (silk/fixed) and analysis gating are separate code
        Job("c11_honour", "fix-asan", "random", workers=W, cases=200 if q else 4000, maxtime=180 if q else 900, seed_salt=43),
        Job("c11_alloc", "flt-asan", "enumerate", workers=4, maxtime=60, link_extra=("-Wl,--wrap=malloc",)),
    ]


PROP = dict(
    jobs=jobs,
    rule="c11_ctl: a case is (object kind, configuration, history of requests / encode-decode calls / resets); non-trivial = history with "
         ">= 1 rejected request after >= 1 accepted one and >= 1 encode (decode for decoders); distinct = hash of (kind, configuration, "
         "operation sequence with request and value). c11_honour: non-trivial = >= 3 packets with coded audio checked under at least one "
         "binding setting (forced/maximum bandwidth, Nyquist < fullband, forced channels, expert duration, low-delay, < 10 ms); distinct = "
         "hash of (configuration, duration, signal, change schedule). c11_alloc: every case injects a failure; distinct = (function, "
         "arguments). The enumerated families (one request x one grid value x object kind x 4 configurations x {fresh, after a coded "
         "frame, after a reset}; creation/init argument grid; allocation-failure grid) are counted as evaluations only.",
    required_labels={"any": {
        "c11_ctl/family:grid": 2000, "c11_ctl/family:create": 500, "c11_ctl/family:history": 2000,
        "c11_ctl/set-accepted": 2000, "c11_ctl/set-rejected": 2000, "c11_ctl/set-foreign": 200, "c11_ctl/null-getter": 200,
        "c11_ctl/unknown-request": 200, "c11_ctl/foreign-request": 200, "c11_ctl/encode-ok": 500, "c11_ctl/encode-multiframe": 50,
        "c11_ctl/encode-bad-frame-size": 20, "c11_ctl/decode-ok": 100, "c11_ctl/reset": 200, "c11_ctl/stream-state-ok": 20,
        "c11_ctl/stream-state-rejected": 50, "c11_ctl/projection-matrix-request": 20, "c11_ctl/nontrivial-history": 300,
        "c11_ctl/kind:enc": 100, "c11_ctl/kind:dec": 100, "c11_ctl/kind:msenc": 100, "c11_ctl/kind:surround-enc": 100,
        "c11_ctl/kind:msdec": 100, "c11_ctl/kind:proj-enc": 100, "c11_ctl/kind:proj-dec": 100,
        "c11_ctl/create:enc:reject": 50, "c11_ctl/create:dec:reject": 10, "c11_ctl/create:ms-enc:reject": 50, "c11_ctl/create:ms-dec:reject": 50,
        "c11_ctl/create:surround:reject": 100, "c11_ctl/create:projection-enc:reject": 100, "c11_ctl/create:projection-dec:reject": 3,
        "c11_ctl/create:enc:accept": 5, "c11_ctl/create:surround:accept": 20, 
        "c11_honour/object:single": 1000, "c11_honour/object:multistream": 100, "c11_honour/forced-bandwidth": 200,
        "c11_honour/max-bandwidth": 100, "c11_honour/nyquist-binds": 300, "c11_honour/forced-channels": 100, "c11_honour/lowdelay": 200,
        "c11_honour/short-frame": 100, "c11_honour/expert-duration": 300, "c11_honour/long-packet": 200,
        "c11_honour/celt-medium-coded-as-wide": 50, "c11_honour/channel-change-verified": 40, "c11_honour/empty-packets-skipped": 50,
        "c11_alloc/failure-injected": 200,
    }},
    exhaustive_parts={
        "thorough": ["c11_ctl grid family: 7 object kinds x 4 configurations x {fresh, after one coded frame, after frame + reset} x 18 settable requests x 89 grid values (legal, both boundaries +-1, AUTO/MAX sentinels, INT_MIN/INT_MAX)",
                     "c11_ctl creation grid: encoder 19 rates x 5 channel counts x 8 applications; decoder 19 x 5; plain multistream encoder and decoder 3 rates x 3 applications x 24 (channels, streams, coupled) triples x 6 mapping shapes; surround encoder channels 0..256 x 9 families x 2 rates x 2 applications; projection encoder channels 0..256 x 5 families x 2 x 2; projection decoder 26 layouts x 2 rates; create and init paths",
                     "c11_alloc: 7 creation functions x 5 rates x 3 applications x 6 layouts x {error pointer, NULL}: every allocation of the creation path failed once"],
        "quick": ["1/8 stratified slice of the c11_ctl grid and creation families", "c11_alloc: complete (1260 cases)"]},
    assumptions=[
        "The settings model (targets/c11_model.hpp) is a faithful reading of the request documentation in include/opus_defines.h, opus_multistream.h and opus_projection.h; defaults the headers do not state (complexity, phase inversion of mono objects, look-ahead) are read from the fresh object and only required to stay constant.",
        "Library built without ENABLE_DRED / USE_WEIGHTS_FILE, so the DRED and DNN-blob requests count as unknown requests.",
        "A packet whose frames are all empty (TOC-only: DTX, lost-frame placeholders of a starved budget) carries no coded audio and is not bound by the settings ('non-DTX packet' of the property).",
        "OPUS_GET_BANDWIDTH on encoders, OPUS_GET_IN_DTX, final range, pitch and last packet duration are run-time status: range-checked, required to be unchanged by ctl requests, not modelled.",
        "On surround encoders (mapping family 1, > 2 channels) the library re-forces bandwidth, mode and channel count of every stream per frame; forced/maximum bandwidth and forced channels are therefore not asserted for them.",
        "Allocation failure is injected at malloc() only (opus_alloc is an inline wrapper around malloc); the stack allocator (VAR_ARRAYS) cannot fail.",
        "Known findings F8, F9, F10, F15, F16, F17 are excluded by construction (counts in excluded_known_finding_cases) and replayed on every run.",
    ],
)

TEXT = dict(
    technique="stateful model-based property testing of the control interface (request histories against an executable settings model, exhaustive request x value grid, creation-argument grid), packet-level honouring checks with an independent RFC 6716 TOC reader, and exhaustive allocation-fault injection through the linker",
    level="Exploration with exhaustive sub-families: every settable request is tried with every value of an 89-point grid on every object kind in three object states (complete in thorough, 1/8 slice in quick); random histories of up to 60 steps compare all getters (and every stream of multistream encoders/decoders) with the model after each step; honouring is asserted for every coded packet of generated streams; every allocation of every creation function is failed once.",
    note="Trusted: the settings model, the RFC framing model (engine/rfc_framing.hpp, validated by C06), ASan/UBSan. Not covered: OPUS_SET_LFE / OPUS_SET_ENERGY_MASK / OPUS_SET_VOICE_RATIO (private requests), DRED and DNN-blob requests (not compiled in).",
)
