"""Runs target binaries in parallel worker processes, attributes crashes,
confirms failures by replay, shrinks them, applies the known-findings file and
writes evidence.  stdlib only."""
import hashlib
import json
import os
import shutil
import struct
import subprocess
import sys
import time

from . import build

VERIF = build.VERIF
EVID = os.environ.get("VERIF_EVIDENCE_DIR", os.path.join(VERIF, "evidence"))
REPLAYS = os.path.join(VERIF, "replays")
CORPUS = os.path.join(VERIF, "corpus")
WORK = os.path.join(build.BUILD, "work")
KNOWN = os.path.join(VERIF, "known_findings.json")

SAN_ENV = {
    "ASAN_OPTIONS": "abort_on_error=0:exitcode=99:detect_leaks=1:allocator_may_return_null=1:max_allocation_size_mb=2048:handle_abort=1:detect_stack_use_after_return=0:symbolize=1",
    "UBSAN_OPTIONS": "print_stacktrace=1:halt_on_error=1:exitcode=98",
    "TSAN_OPTIONS": "halt_on_error=1:exitcode=97:second_deadlock_stack=1",
    "LSAN_OPTIONS": "exitcode=96",
}


def env_for():
    e = dict(os.environ)
    e.update(SAN_ENV)
    sym = shutil.which("llvm-symbolizer") or shutil.which("llvm-symbolizer-14")
    if sym:
        e["ASAN_SYMBOLIZER_PATH"] = sym
    return e


def load_known():
    try:
        return json.load(open(KNOWN))
    except FileNotFoundError:
        return {"findings": []}


def fixed_ids():
    """Ids of findings repaired in /repo: their exclusion classes are lifted in every run (a fixed entry suppresses nothing)."""
    return sorted(set(f["id"] for f in load_known()["findings"] if f.get("status") == "fixed") -
                  set(f["id"] for f in load_known()["findings"] if f.get("status") == "known"))


def lift_args():
    a = []
    for i in fixed_ids():
        a += ["--include-known", i]
    return a


class Job:
    """One batch of worker processes of one target binary."""

    def __init__(self, target, variant, mode="random", workers=16, cases=1000, maxtime=60.0,
                 enum_stride=1, sources=None, refs=(), link_extra=(), extra_defs=(), csources=(),
                 fuzz_time=0, fuzz_jobs=0, case_timeout=120, name=None, extra_args=(), seed_salt=0, fastsources=()):
        self.target = target
        self.variant = variant
        self.mode = mode
        self.workers = workers
        self.cases = cases
        self.maxtime = maxtime
        self.enum_stride = enum_stride
        self.sources = sources or ["targets/%s.cpp" % target]
        self.refs = tuple(refs)
        self.link_extra = tuple(link_extra)
        self.extra_defs = tuple(extra_defs)
        self.csources = tuple(csources)
        self.fuzz_time = fuzz_time
        self.fuzz_jobs = fuzz_jobs
        self.case_timeout = case_timeout
        self.name = name or "%s.%s.%s" % (target, variant, mode)
        self.extra_args = tuple(extra_args)
        self.seed_salt = seed_salt
        self.fastsources = tuple(fastsources)

    def binary(self, quiet=False):
        return build.build_target(self.target, self.variant, self.sources, refs=self.refs,
                                  link_extra=self.link_extra, extra_defs=self.extra_defs,
                                  csources=self.csources, fuzzer=(self.mode == "fuzz"), quiet=quiet, fastsources=self.fastsources)


def read_status(path):
    try:
        b = open(path, "rb").read()
        idx, ln = struct.unpack_from("<QI", b, 0)
        return idx, b[16:16 + ln]
    except Exception:
        return None, None


def replay_case(binary, path, include_known=(), case_timeout=120):
    cmd = [binary, "--replay", path, "--case-timeout", str(case_timeout)] + lift_args()
    for k in include_known:
        cmd += ["--include-known", k]
    r = subprocess.run(cmd, stdout=subprocess.PIPE, stderr=subprocess.PIPE, env=env_for())
    try:
        return json.loads(r.stdout.decode(errors="replace").strip().splitlines()[-1])
    except Exception:
        return {"status": "error", "sig": "replay-driver-error", "msg": r.stderr.decode(errors="replace")[-500:]}


def describe_case(binary, path, include_known=()):
    cmd = [binary, "--describe", path] + lift_args()
    for k in include_known:
        cmd += ["--include-known", k]
    try:
        r = subprocess.run(cmd, stdout=subprocess.PIPE, stderr=subprocess.PIPE, env=env_for(), timeout=300)
        return json.loads(r.stdout.decode(errors="replace").strip().splitlines()[-1])
    except Exception:
        return None


def shrink_case(binary, path, out, maxtime=45, include_known=()):
    cmd = [binary, "--shrink", path, "--out", out, "--maxtime", str(maxtime)] + lift_args()
    for k in include_known:
        cmd += ["--include-known", k]
    try:
        r = subprocess.run(cmd, stdout=subprocess.PIPE, stderr=subprocess.PIPE, env=env_for(), timeout=maxtime * 4 + 300)
        return json.loads(r.stdout.decode(errors="replace").strip().splitlines()[-1])
    except Exception:
        return None


class JobResult:
    def __init__(self):
        self.evaluations = 0
        self.units = 0
        self.nontrivial = 0
        self.labels = {}
        self.excluded = {}
        self.fps = set()
        self.fp_capped = False
        self.failures = []   # dicts: sig,msg,bytes
        self.samples = []
        self.stopped_early = False
        self.wall = 0.0
        self.fuzz_stats = {}


def run_job(job, seed, prop_id, log):
    """Run all workers of a job; returns JobResult."""
    res = JobResult()
    binary = job.binary()
    wdir = os.path.join(WORK, prop_id, job.name)
    shutil.rmtree(wdir, ignore_errors=True)
    os.makedirs(wdir, exist_ok=True)
    t0 = time.time()
    if job.mode == "fuzz":
        return run_fuzz(job, seed, prop_id, log, binary, wdir, res)
    procs = []
    for w in range(job.workers):
        procs.append(start_worker(job, binary, wdir, w, seed, 0, job.maxtime))
    restarts = {w: 0 for w in range(job.workers)}
    pending = dict(enumerate(procs))
    while pending:
        for w, (p, rp, sp, ep) in list(pending.items()):
            rc = p.poll()
            if rc is None:
                continue
            del pending[w]
            rep = None
            if os.path.exists(rp):
                try:
                    rep = json.load(open(rp))
                except Exception:
                    rep = None
            if rep is not None:
                merge_report(res, rep)
                continue
            # the worker died: attribute to the case it was running
            idx, cb = read_status(sp)
            err = ""
            try:
                err = open(ep, errors="replace").read()[-3000:]
            except Exception:
                pass
            if cb is None:
                res.failures.append({"sig": "worker-died-no-status", "msg": "rc=%s %s" % (rc, err[-300:]), "bytes": b"", "crash": True})
                continue
            res.failures.append({"sig": "crash", "msg": "worker rc=%s at case %s: %s" % (rc, idx, err[-800:]), "bytes": cb, "crash": True})
            res.evaluations += (idx or 0)  # lower bound: cases before the crash in this segment are not re-counted
            restarts[w] += 1
            elapsed = time.time() - t0
            if restarts[w] <= 3 and elapsed < job.maxtime:
                pending[w] = start_worker(job, binary, wdir, w, seed, idx + 1, job.maxtime - elapsed, gen=restarts[w])
        time.sleep(0.05)
    res.wall = time.time() - t0
    return res


def start_worker(job, binary, wdir, w, seed, start, maxtime, gen=0):
    rp = os.path.join(wdir, "report.%d.%d.json" % (w, gen))
    sp = os.path.join(wdir, "status.%d.%d" % (w, gen))
    ep = os.path.join(wdir, "stderr.%d.%d" % (w, gen))
    cmd = [binary, "--report", rp, "--status", sp, "--worker", str(w), "--seed", str(seed + job.seed_salt),
           "--start", str(start), "--maxtime", "%.1f" % maxtime, "--case-timeout", str(job.case_timeout)]
    if job.mode == "random":
        cmd += ["--random", "--cases", str(job.cases)]
    elif job.mode == "enumerate":
        cmd += ["--enumerate", "--nworkers", str(job.workers), "--enum-stride", str(job.enum_stride)]
    cmd += list(job.extra_args) + lift_args()
    ef = open(ep, "w")
    p = subprocess.Popen(cmd, stdout=subprocess.DEVNULL, stderr=ef, env=env_for())
    ef.close()
    return (p, rp, sp, ep)


def merge_report(res, rep):
    res.evaluations += rep["evaluations"]
    res.units += rep.get("units", 0)
    res.nontrivial += rep["nontrivial"]
    for k, v in rep["labels"].items():
        res.labels[k] = res.labels.get(k, 0) + v
    for k, v in rep["excluded"].items():
        res.excluded[k] = res.excluded.get(k, 0) + v
    res.fps.update(rep["fingerprints"])
    res.fp_capped = res.fp_capped or rep.get("fp_capped", False)
    for f in rep["failures"]:
        res.failures.append({"sig": f["sig"], "msg": f["msg"], "bytes": bytes.fromhex(f["case_hex"]), "crash": False})
    if len(res.samples) < 6:
        res.samples.extend(rep["samples"][:2])
    res.stopped_early = res.stopped_early or rep.get("stopped_early", False)


def run_fuzz(job, seed, prop_id, log, binary, wdir, res):
    """libFuzzer campaign: fuzz_jobs processes x fuzz_time seconds."""
    t0 = time.time()
    procs = []
    seeds_dir = os.path.join(CORPUS, prop_id, job.target)
    for j in range(job.fuzz_jobs):
        cdir = os.path.join(wdir, "corpus.%d" % j)
        adir = os.path.join(wdir, "artifacts.%d" % j) + "/"
        os.makedirs(cdir, exist_ok=True)
        os.makedirs(adir, exist_ok=True)
        # private copy of the committed seeds plus a slice of random-generator output
        if os.path.isdir(seeds_dir):
            for f in os.listdir(seeds_dir):
                shutil.copy(os.path.join(seeds_dir, f), os.path.join(cdir, "seed-" + f))
        if j % 2 == 0:
            subprocess.run([binary, "--gen-corpus", cdir, "--seed", str(seed + j), "--cases", "48"], env=env_for(),
                           stdout=subprocess.DEVNULL, stderr=subprocess.DEVNULL)
        rp = os.path.join(wdir, "report.fuzz.%d.json" % j)
        ep = os.path.join(wdir, "stderr.fuzz.%d" % j)
        fseed = (seed * 1000003 + j * 7919 + 1) % (2 ** 31 - 1) or 1
        cmd = [binary, "--fuzz", "--report", rp] + lift_args() + ["--", cdir, "-seed=%d" % fseed, "-max_total_time=%d" % job.fuzz_time,
               "-artifact_prefix=" + adir, "-rss_limit_mb=3000", "-timeout=60", "-max_len=%d" % 4096, "-print_final_stats=1",
               "-use_value_profile=1", "-len_control=50"]
        ef = open(ep, "w")
        procs.append((subprocess.Popen(cmd, stdout=subprocess.DEVNULL, stderr=ef, env=env_for()), rp, ep, adir))
        ef.close()
    for p, rp, ep, adir in procs:
        try:
            p.wait(timeout=job.fuzz_time + 300)
        except subprocess.TimeoutExpired:
            p.kill()
        if os.path.exists(rp):
            try:
                merge_report(res, json.load(open(rp)))
            except Exception:
                pass
        err = open(ep, errors="replace").read()
        for line in err.splitlines():
            if line.startswith("stat::"):
                k, v = line[6:].split(":")
                try:
                    res.fuzz_stats[k.strip()] = res.fuzz_stats.get(k.strip(), 0) + int(v)
                except ValueError:
                    pass
        # coverage from the last status line
        cov = [l for l in err.splitlines() if " cov: " in l]
        if cov:
            try:
                c = int(cov[-1].split(" cov: ")[1].split()[0])
                res.fuzz_stats["cov_max"] = max(res.fuzz_stats.get("cov_max", 0), c)
            except Exception:
                pass
        for f in sorted(os.listdir(adir)):
            if f.startswith("crash-") or f.startswith("leak-"):
                b = open(os.path.join(adir, f), "rb").read()
                res.failures.append({"sig": "fuzz-artifact", "msg": err[-800:], "bytes": b, "crash": True})
    res.wall = time.time() - t0
    return res


def sha8(b):
    return hashlib.sha256(b).hexdigest()[:10]


def safe(s):
    return "".join(ch if ch.isalnum() or ch in "-_." else "_" for ch in s)[:60]
