"""Property registry: aggregates vlib/props/cNN.py (one module per property).
Each module defines PROP (jobs(tier) -> [Job], rule, required_labels, exhaustive_parts,
assumptions) and TEXT (technique, level, note) and optionally NOT_APPLICABLE (reason)."""
import importlib
import os

PROPS = {}
MANIFEST_TEXT = {}
NOT_APPLICABLE = {}
_d = os.path.join(os.path.dirname(os.path.abspath(__file__)), "props")
for _f in sorted(os.listdir(_d)):
    if _f.startswith("c") and _f.endswith(".py"):
        _m = importlib.import_module("vlib.props." + _f[:-3])
        _pid = _f[:-3].upper()
        if hasattr(_m, "NOT_APPLICABLE"):
            NOT_APPLICABLE[_pid] = _m.NOT_APPLICABLE
            continue
        PROPS[_pid] = _m.PROP
        MANIFEST_TEXT[_pid] = _m.TEXT
