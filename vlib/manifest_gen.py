#!/usr/bin/env python3
"""Regenerates MANIFEST.json from the registry (run: python3 -m vlib.manifest_gen)."""
import json, os, sys
sys.path.insert(0, os.path.dirname(os.path.dirname(os.path.abspath(__file__))))
from vlib.registry import PROPS, MANIFEST_TEXT, NOT_APPLICABLE

ALL = ["C%02d" % i for i in range(1, 21)]
ENABLED = set(open(os.path.join(os.path.dirname(os.path.abspath(__file__)), "enabled.txt")).read().split())
checks = []
for pid in ALL:
    if pid not in PROPS or pid not in ENABLED:
        continue
    t = MANIFEST_TEXT[pid]
    checks.append({
        "property_id": pid,
        "quick_cmd": "./check %s --tier quick" % pid,
        "thorough_cmd": "./check %s --tier thorough" % pid,
        "evidence_file": "/verif/evidence/%s.json" % pid,
        "replay_cmd_template": "./check %s --replay {path}" % pid,
        "engine": "choice-sequence",
        "level_claimed": {"category": PROPS[pid].get("level", "exploration"), "text": t["level"], "design_ref": "DESIGN.md section 4, %s" % pid},
        "level_note": t["note"],
        "technique": t["technique"],
    })
na = []
for pid in ALL:
    if pid not in PROPS or pid not in ENABLED:
        na.append({"property_id": pid, "reason": NOT_APPLICABLE.get(pid, "check not implemented yet in this revision (planned, see DESIGN.md section 4)")})
m = {
    "version": 1,
    "setup_cmd": "./check --setup",
    "hooks": {
        "guard": "XIPH_OPUS_VERIF",
        "enable": "vlib/build.py compiles /repo sources with -DXIPH_OPUS_VERIF (arch cap in opus_select_arch)",
        "baseline_off_cmd": "cmake -G Ninja -S /repo -B /repo/_build && cmake --build /repo/_build && ctest --test-dir /repo/_build -j8 --timeout 900",
        "source_commits": ["1362cb56"],
        "add_only": True,
    },
    "engines": [{
        "name": "choice-sequence",
        "path": "engine/",
        "serves_properties": [c["property_id"] for c in checks],
        "kind_free_text": "In-house property-based testing engine: a case is a byte string decoded by the target into structured input "
                          "(Hypothesis-style choice sequences); one target body serves seeded random generation, exhaustive enumeration of finite "
                          "families, coverage-guided libFuzzer (LLVMFuzzerRunDriver), replay, and fork-based delta-debugging shrinking; "
                          "ASan+UBSan+assertions are part of every oracle.",
    }],
    "checks": checks,
    "not_applicable": na,
    "notes": "Fix commits in /repo: see known_findings.json (log[]). Frozen reference = vendored pinned commit b5b845fb under ref/.",
}
json.dump(m, open(os.path.join(os.path.dirname(os.path.dirname(os.path.abspath(__file__))), "MANIFEST.json"), "w"), indent=1)
print("MANIFEST.json: %d checks, %d not_applicable" % (len(checks), len(na)))
