#!/usr/bin/env python3
"""Build driver: compiles libopus from /repo's *current working tree* (or the
frozen reference under /verif/ref) into /verif/build/<variant>/libopus.a.

Objects are cached by SHA-256 of (source bytes, union of all headers, flags),
so a check invoked after /repo was edited always tests the edited code and a
second invocation is a no-op.  stdlib only.
"""
import fcntl
import hashlib
import json
import os
import re
import subprocess
import sys
from concurrent.futures import ThreadPoolExecutor

VERIF = os.path.dirname(os.path.dirname(os.path.abspath(__file__)))
REPO = os.environ.get("VERIF_REPO", "/repo")
REF = os.path.join(VERIF, "ref", "opus-b5b845fb")
BUILD = os.environ.get("VERIF_BUILD", os.path.join(VERIF, "build"))
JOBS = int(os.environ.get("VERIF_JOBS", "16"))

CLANG = "clang"
CLANGXX = "clang++"
GCC = "gcc"

COMMON_DEFS = ["-DOPUS_BUILD", "-DVAR_ARRAYS", "-DHAVE_LRINTF", "-DHAVE_LRINT",
               "-DENABLE_HARDENING", "-DDISABLE_DEBUG_FLOAT"]
X86_DEFS = ["-DOPUS_HAVE_RTCD", "-DCPU_INFO_BY_C", "-DOPUS_X86_MAY_HAVE_SSE",
            "-DOPUS_X86_MAY_HAVE_SSE2", "-DOPUS_X86_MAY_HAVE_SSE4_1",
            "-DOPUS_X86_MAY_HAVE_AVX2"]
HOOK = ["-DXIPH_OPUS_VERIF"]
SAN = ["-fsanitize=address,undefined", "-fno-sanitize-recover=undefined",
       "-fno-omit-frame-pointer"]

# name -> description of a library variant
VARIANTS = {
    "flt-asan": dict(cc=CLANG, opt=["-O1", "-g"] + SAN, defs=["-DENABLE_ASSERTIONS"] + HOOK, fixed=False, x86=True, root="repo"),
    "flt-fuzz": dict(cc=CLANG, opt=["-O1", "-g", "-fsanitize=fuzzer-no-link"] + SAN, defs=["-DENABLE_ASSERTIONS"] + HOOK, fixed=False, x86=True, root="repo"),
    "fix-asan": dict(cc=CLANG, opt=["-O1", "-g"] + SAN, defs=["-DENABLE_ASSERTIONS"] + HOOK, fixed=True, x86=True, root="repo"),
    "flt-fuzzing": dict(cc=CLANG, opt=["-O1", "-g"] + SAN, defs=["-DENABLE_ASSERTIONS", "-DFUZZING"] + HOOK, fixed=False, x86=True, root="repo"),
    "flt-checkasm": dict(cc=CLANG, opt=["-O2", "-g"], defs=["-DENABLE_ASSERTIONS", "-DOPUS_CHECK_ASM"] + HOOK, fixed=False, x86=True, root="repo"),
    "fix-checkasm": dict(cc=CLANG, opt=["-O2", "-g"], defs=["-DENABLE_ASSERTIONS", "-DOPUS_CHECK_ASM"] + HOOK, fixed=True, x86=True, root="repo"),
    "flt-tsan": dict(cc=CLANG, opt=["-O1", "-g", "-fsanitize=thread", "-fno-omit-frame-pointer"], defs=HOOK, fixed=False, x86=True, root="repo"),
    "fix-tsan": dict(cc=CLANG, opt=["-O1", "-g", "-fsanitize=thread", "-fno-omit-frame-pointer"], defs=HOOK, fixed=True, x86=True, root="repo"),
    "flt-opt": dict(cc=CLANG, opt=["-O2", "-g"], defs=["-DENABLE_ASSERTIONS"] + HOOK, fixed=False, x86=True, root="repo"),
    "fix-opt": dict(cc=CLANG, opt=["-O2", "-g"], defs=["-DENABLE_ASSERTIONS"] + HOOK, fixed=True, x86=True, root="repo"),
    # frozen reference: gcc, portable C only, no sanitizers, symbols prefixed
    "ref-flt": dict(cc=GCC, opt=["-O2", "-g0"], defs=[], fixed=False, x86=False, root="ref", prefix="ref_"),
    "ref-fix": dict(cc=GCC, opt=["-O2", "-g0"], defs=[], fixed=True, x86=False, root="ref", prefix="rfx_"),
}

SIMD_FLAGS = {
    "SSE": ["-msse"], "SSE2": ["-msse", "-msse2"], "SSE4_1": ["-msse", "-msse2", "-msse4.1"],
    "AVX2": ["-mavx", "-mfma", "-mavx2"],
}


def parse_mk(path):
    """Return {VAR: [files]} from a *_sources.mk file."""
    out = {}
    if not os.path.exists(path):
        return out
    txt = open(path).read().replace("\\\n", " ")
    for line in txt.splitlines():
        m = re.match(r"\s*([A-Z0-9_]+)\s*\+?=\s*(.*)$", line)
        if m:
            out.setdefault(m.group(1), []).extend(m.group(2).split())
    return out


def source_list(root, fixed, x86):
    """[(relative path, extra flags)]"""
    celt = parse_mk(os.path.join(root, "celt_sources.mk"))
    silk = parse_mk(os.path.join(root, "silk_sources.mk"))
    opus = parse_mk(os.path.join(root, "opus_sources.mk"))
    files = []
    for f in celt.get("CELT_SOURCES", []) + silk.get("SILK_SOURCES", []) + opus.get("OPUS_SOURCES", []):
        files.append((f, []))
    # analysis.c / mlp*.c belong to every build that keeps the float API (ours do)
    for f in opus.get("OPUS_SOURCES_FLOAT", []):
        files.append((f, []))
    if fixed:
        for f in silk.get("SILK_SOURCES_FIXED", []):
            files.append((f, []))
    else:
        for f in silk.get("SILK_SOURCES_FLOAT", []):
            files.append((f, []))
    if x86:
        for f in celt.get("CELT_SOURCES_X86_RTCD", []) + silk.get("SILK_SOURCES_X86_RTCD", []):
            files.append((f, []))
        for lvl in ("SSE", "SSE2", "SSE4_1", "AVX2"):
            for f in celt.get("CELT_SOURCES_" + lvl, []) + silk.get("SILK_SOURCES_" + lvl, []):
                files.append((f, SIMD_FLAGS[lvl]))
            if fixed:
                for f in silk.get("SILK_SOURCES_FIXED_" + lvl, []):
                    files.append((f, SIMD_FLAGS[lvl]))
            else:
                for f in silk.get("SILK_SOURCES_FLOAT_" + lvl, []):
                    files.append((f, SIMD_FLAGS[lvl]))
    return files


def include_flags(root, fixed):
    inc = ["include", "celt", "silk", "silk/fixed" if fixed else "silk/float", "src", "."]
    return ["-I" + os.path.join(root, d) for d in inc]


def variant_root(v):
    return REPO if VARIANTS[v]["root"] == "repo" else REF


def variant_cflags(v):
    d = VARIANTS[v]
    fl = list(d["opt"]) + COMMON_DEFS + list(d["defs"])
    if d["x86"]:
        fl += X86_DEFS
    if d["fixed"]:
        fl += ["-DFIXED_POINT=1"]
    fl += ["-std=gnu99", "-w"]
    return fl


def headers_hash(root):
    h = hashlib.sha256()
    for sub in ("include", "celt", "silk", "src"):
        base = os.path.join(root, sub)
        for dp, dn, fn in sorted(os.walk(base)):
            dn.sort()
            for f in sorted(fn):
                if f.endswith(".h"):
                    p = os.path.join(dp, f)
                    h.update(os.path.relpath(p, root).encode())
                    with open(p, "rb") as fh:
                        h.update(fh.read())
    for mk in ("celt_sources.mk", "silk_sources.mk", "opus_sources.mk"):
        p = os.path.join(root, mk)
        if os.path.exists(p):
            h.update(open(p, "rb").read())
    return h.hexdigest()


def _sha(*parts):
    h = hashlib.sha256()
    for p in parts:
        if isinstance(p, str):
            p = p.encode()
        h.update(p)
        h.update(b"\0")
    return h.hexdigest()


class BuildError(Exception):
    pass


def _run(cmd):
    r = subprocess.run(cmd, stdout=subprocess.PIPE, stderr=subprocess.STDOUT)
    if r.returncode != 0:
        raise BuildError("command failed: %s\n%s" % (" ".join(cmd), r.stdout.decode(errors="replace")[-4000:]))


def build_variant(v, quiet=False):
    """Build (or refresh) variant v. Returns (path to libopus.a, content hash)."""
    d = VARIANTS[v]
    root = variant_root(v)
    out = os.path.join(BUILD, v)
    obj = os.path.join(out, "obj")
    os.makedirs(obj, exist_ok=True)
    lock = open(os.path.join(out, ".lock"), "w")
    fcntl.flock(lock, fcntl.LOCK_EX)
    try:
        cache_p = os.path.join(out, "cache.json")
        try:
            cache = json.load(open(cache_p))
        except Exception:
            cache = {}
        hh = headers_hash(root)
        cflags = variant_cflags(v) + include_flags(root, d["fixed"])
        todo = []
        objs = []
        newcache = {}
        for rel, extra in source_list(root, d["fixed"], d["x86"]):
            src = os.path.join(root, rel)
            o = os.path.join(obj, rel.replace("/", "__")[:-2] + ".o")
            objs.append(o)
            with open(src, "rb") as fh:
                key = _sha(fh.read(), hh, " ".join([d["cc"]] + cflags + extra))
            newcache[o] = key
            if cache.get(o) != key or not os.path.exists(o):
                todo.append(([d["cc"]] + cflags + extra + ["-c", src, "-o", o], o))
        lib = os.path.join(out, "libopus.a")
        libkey = _sha(*[newcache[o] for o in objs])
        if todo or cache.get("__lib__") != libkey or not os.path.exists(lib):
            if not quiet:
                sys.stderr.write("[build] %s: compiling %d/%d objects\n" % (v, len(todo), len(objs)))
            with ThreadPoolExecutor(JOBS) as ex:
                list(ex.map(lambda t: _run(t[0]), todo))
            # drop stale objects
            keep = set(os.path.basename(o) for o in objs)
            for f in os.listdir(obj):
                if f.endswith(".o") and f not in keep:
                    os.unlink(os.path.join(obj, f))
            if os.path.exists(lib):
                os.unlink(lib)
            if d.get("prefix"):
                # combine, then rename every defined global symbol
                comb = os.path.join(out, "combined.o")
                _run(["ld", "-r", "-o", comb] + objs)
                nm = subprocess.run(["nm", "-g", "--defined-only", comb], stdout=subprocess.PIPE, check=True).stdout.decode()
                syms = sorted(set(l.split()[-1] for l in nm.splitlines() if l.strip()))
                mp = os.path.join(out, "syms.map")
                with open(mp, "w") as fh:
                    for s in syms:
                        fh.write("%s %s%s\n" % (s, d["prefix"], s))
                pre = os.path.join(out, "prefixed.o")
                _run(["objcopy", "--redefine-syms=" + mp, comb, pre])
                _run(["ar", "rcs", lib, pre])
                os.unlink(comb)
            else:
                _run(["ar", "rcs", lib] + objs)
            newcache["__lib__"] = libkey
            json.dump(newcache, open(cache_p, "w"))
        return lib, libkey
    finally:
        fcntl.flock(lock, fcntl.LOCK_UN)
        lock.close()


# ---------------------------------------------------------------------------
# Target binaries

ENGINE = os.path.join(VERIF, "engine")
TARGETS = os.path.join(VERIF, "targets")


def _files_hash(paths):
    h = hashlib.sha256()
    for p in sorted(paths):
        h.update(p.encode())
        with open(p, "rb") as fh:
            h.update(fh.read())
    return h.hexdigest()


def engine_hash():
    ps = []
    for dp, dn, fn in os.walk(ENGINE):
        for f in fn:
            ps.append(os.path.join(dp, f))
    return _files_hash(ps)


def target_cxxflags(variant, extra_defs=()):
    d = VARIANTS[variant]
    fl = ["-std=gnu++17", "-w"]
    # same sanitizer family as the library
    fl += [f for f in d["opt"]]
    fl += COMMON_DEFS + list(d["defs"])
    if d["x86"]:
        fl += X86_DEFS
    if d["fixed"]:
        fl += ["-DFIXED_POINT=1"]
    fl += include_flags(REPO, d["fixed"])
    fl += ["-I" + ENGINE, "-I" + TARGETS]
    fl += list(extra_defs)
    return fl


def build_target(name, variant, sources, refs=(), link_extra=(), extra_defs=(), csources=(), fuzzer=False, quiet=False, fastsources=()):
    """Build target binary /verif/build/bin/<name>.<variant>.

    sources: C++ files (relative to /verif), csources: C files compiled with the
    library's C flags (may #include library .c files), refs: reference variants
    to link in, fuzzer: link libFuzzer (fuzzer_no_main) and define VP_WITH_LIBFUZZER.
    """
    lib, libkey = build_variant(variant, quiet=quiet)
    reflibs = []
    refkeys = []
    for r in refs:
        rl, rk = build_variant(r, quiet=quiet)
        reflibs.append(rl)
        refkeys.append(rk)
    bindir = os.path.join(BUILD, "bin")
    os.makedirs(bindir, exist_ok=True)
    out = os.path.join(bindir, "%s.%s" % (name, variant))
    d = VARIANTS[variant]
    cxx = CLANGXX if d["cc"] == CLANG else "g++"
    defs = list(extra_defs) + (["-DVP_WITH_LIBFUZZER"] if fuzzer else [])
    cxxflags = target_cxxflags(variant, defs)
    srcs = [os.path.join(VERIF, s) for s in sources] + [os.path.join(ENGINE, "driver.cpp")]
    csrcs = [os.path.join(VERIF, s) for s in csources]
    fsrcs = [os.path.join(VERIF, s) for s in fastsources]   # harness-only helpers: -O2, no sanitizers
    key = _sha(libkey, *refkeys, engine_hash(), _files_hash(srcs + csrcs + fsrcs), headers_hash(REPO),
               " ".join(cxxflags), " ".join(link_extra), name,
               _files_hash([os.path.join(TARGETS, f) for f in os.listdir(TARGETS) if f.endswith((".hpp", ".h"))]))
    keyp = out + ".key"
    lockf = open(out + ".lock", "w")
    fcntl.flock(lockf, fcntl.LOCK_EX)
    try:
        if os.path.exists(out) and os.path.exists(keyp) and open(keyp).read() == key:
            return out
        if not quiet:
            sys.stderr.write("[build] target %s.%s\n" % (name, variant))
        tmpo = []
        jobs = []
        for i, s in enumerate(srcs):
            o = out + ".%d.o" % i
            tmpo.append(o)
            jobs.append([cxx] + cxxflags + ["-c", s, "-o", o])
        cflags = variant_cflags(variant) + include_flags(REPO, d["fixed"]) + ["-I" + ENGINE, "-I" + TARGETS] + list(extra_defs)
        for i, s in enumerate(csrcs):
            o = out + ".c%d.o" % i
            tmpo.append(o)
            jobs.append([d["cc"]] + cflags + ["-c", s, "-o", o])
        for i, s in enumerate(fsrcs):
            o = out + ".f%d.o" % i
            tmpo.append(o)
            jobs.append([cxx, "-std=gnu++17", "-O2", "-w", "-I" + ENGINE, "-I" + TARGETS, "-c", s, "-o", o])
        with ThreadPoolExecutor(JOBS) as ex:
            list(ex.map(_run, jobs))
        link = [cxx] + [f for f in d["opt"] if f.startswith("-fsanitize") and "fuzzer" not in f] + tmpo + [lib] + reflibs + list(link_extra)
        if fuzzer:
            link += [fuzzer_no_main_lib()]
        link += ["-lm", "-lpthread", "-o", out]
        _run(link)
        for o in tmpo:
            os.unlink(o)
        open(keyp, "w").write(key)
        return out
    finally:
        fcntl.flock(lockf, fcntl.LOCK_UN)
        lockf.close()


def fuzzer_no_main_lib():
    r = subprocess.run([CLANG, "-print-file-name=libclang_rt.fuzzer_no_main-x86_64.a"], stdout=subprocess.PIPE, check=True)
    p = r.stdout.decode().strip()
    if not os.path.isabs(p) or not os.path.exists(p):
        r = subprocess.run([CLANG, "-print-resource-dir"], stdout=subprocess.PIPE, check=True)
        p = os.path.join(r.stdout.decode().strip(), "lib", "linux", "libclang_rt.fuzzer_no_main-x86_64.a")
    return p


if __name__ == "__main__":
    vs = sys.argv[1:] or list(VARIANTS)
    for v in vs:
        try:
            lib, k = build_variant(v)
            print(v, lib, k[:12])
        except BuildError as e:
            print("BUILD-FAILED", v)
            print(e)
            sys.exit(2)
